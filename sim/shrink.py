"""Minimisation of a failing trace: generic ddmin over the list trace['ops'] (if the property has
one) followed by the property's own candidate generator, accepting a candidate only while the same
violation class (and known-finding signature) persists.  Wall-capped; uses a real clock only to
stop, never to decide anything about a run."""
import copy
import time


def _fails(mod, trace, want):
    try:
        res = mod.execute(trace)
    except Exception:
        return False            # a harness error on a shrunk trace is not the same failure
    v = res.violation
    if not v:
        return False
    if v['cls'] != want['cls']:
        return False
    if mod.signature(trace, v) != want['sig']:
        return False
    return True


def _safe(gen):
    """a candidate generator that trips over an unusual trace ends the search for candidates, not the minimisation"""
    try:
        for x in gen:
            yield x
    except Exception:
        return


def minimise(mod, trace, violation, wall_cap=60.0):
    t0 = time.monotonic()
    want = {'cls': violation['cls'], 'sig': mod.signature(trace, violation)}
    best = copy.deepcopy(trace)
    tried = 0

    def out_of_time():
        return time.monotonic() - t0 > wall_cap

    # ---- ddmin on ops ----
    if isinstance(best.get('ops'), list):
        step = violation.get('step')
        if isinstance(step, int) and 0 <= step < len(best['ops']) - 1:
            cand = copy.deepcopy(best)
            cand['ops'] = cand['ops'][:step + 1]
            tried += 1
            if _fails(mod, cand, want):
                best = cand
        n = 2
        while len(best['ops']) >= 2 and not out_of_time():
            ops = best['ops']
            chunk = max(1, len(ops) // n)
            reduced = False
            for start in range(0, len(ops), chunk):
                cand = copy.deepcopy(best)
                cand['ops'] = ops[:start] + ops[start + chunk:]
                tried += 1
                if _fails(mod, cand, want):
                    best = cand
                    n = max(n - 1, 2)
                    reduced = True
                    break
                if out_of_time():
                    break
            if not reduced:
                if chunk == 1:
                    break
                n = min(len(ops), n * 2)
    # ---- property-specific candidates, to a fixpoint ----
    progress = True
    while progress and not out_of_time():
        progress = False
        for cand in _safe(mod.shrink_candidates(best)):
            if out_of_time():
                break
            if mod.size(cand) >= mod.size(best):
                continue
            tried += 1
            if _fails(mod, cand, want):
                best = cand
                progress = True
                break
    return best, tried
