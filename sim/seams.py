"""Seams: the simulated wall clock, simulated sleep, and the reset of process-global library state.

No hook in /repo is needed: every clock read in pyg_base goes through the module attribute
`datetime` of the reading module, and the only sleep through `pyg_base._decorators.time`.
`install()` replaces those names by shims.  The shim `datetime` class
  * answers isinstance/issubclass exactly like the real datetime.datetime,
  * constructs REAL datetime.datetime objects (no foreign type ever enters pandas or the library),
  * forwards every other attribute to the real class,
  * and reads SimClock in now()/utcnow()/today().
"""
import datetime as _real
import os
import sys
import logging
import warnings

REPO = os.environ.get('VERIF_REPO', '/repo')


def import_library():
    """import pyg_base from the working tree under test (VERIF_REPO, default /repo)"""
    src = os.path.join(REPO, 'src')
    if sys.path[0] != src:
        sys.path.insert(0, src)
    warnings.filterwarnings('ignore')
    import pyg_base
    got = os.path.dirname(os.path.dirname(os.path.abspath(pyg_base.__file__)))
    if os.path.realpath(got) != os.path.realpath(src):
        raise RuntimeError('pyg_base imported from %s, expected %s' % (got, src))
    return pyg_base


class SimClock:
    """the only wall clock the library sees"""
    now = _real.datetime(2020, 1, 1)
    origin = _real.datetime(2020, 1, 1)
    reads = 0
    sleeps = 0
    slept = 0.0

    @classmethod
    def reset(cls, origin):
        cls.now = origin
        cls.origin = origin
        cls.reads = 0
        cls.sleeps = 0
        cls.slept = 0.0

    @classmethod
    def advance(cls, delta):
        if not isinstance(delta, _real.timedelta):
            delta = _real.timedelta(seconds=delta)
        cls.now = cls.now + delta

    @classmethod
    def elapsed(cls):
        return (cls.now - cls.origin).total_seconds()


class _Meta(type):
    def __instancecheck__(cls, obj):
        return isinstance(obj, _real.datetime)

    def __subclasscheck__(cls, sub):
        return issubclass(sub, _real.datetime)

    def __getattr__(cls, name):
        return getattr(_real.datetime, name)


class SimDateTime(metaclass=_Meta):
    def __new__(cls, *args, **kwargs):
        return _real.datetime(*args, **kwargs)

    @staticmethod
    def now(tz=None):
        SimClock.reads += 1
        t = SimClock.now
        if tz is not None:
            # the simulated clock is "local naive"; treat it as UTC when a zone is requested
            return t.replace(tzinfo=_real.timezone.utc).astimezone(tz)
        return t

    @staticmethod
    def utcnow():
        SimClock.reads += 1
        return SimClock.now

    @staticmethod
    def today():
        SimClock.reads += 1
        return SimClock.now


class _DatetimeModuleShim:
    """stands in for the `datetime` module inside the library modules"""
    datetime = SimDateTime

    def __getattr__(self, name):
        return getattr(_real, name)


class _TimeModuleShim:
    """stands in for the `time` module inside pyg_base._decorators: sleep advances SimClock"""

    def __getattr__(self, name):
        import time as _t
        return getattr(_t, name)

    @staticmethod
    def sleep(s):
        SimClock.sleeps += 1
        SimClock.slept += float(s)
        SimClock.advance(float(s))

    @staticmethod
    def time():
        return (SimClock.now - _real.datetime(1970, 1, 1)).total_seconds()


_installed = False


def install():
    """idempotent; patched for the life of the (single-purpose) worker process"""
    global _installed
    if _installed:
        return
    # machine-dependent knobs are seeded configuration too; set before the library is imported (it may read them at import)
    cpus = os.environ.get('VERIF_CPU_COUNT')
    if cpus:
        os.cpu_count = lambda: int(cpus)
    import_library()
    import pyg_base._dates as D
    import pyg_base._decorators as DEC
    import dateutil.parser._parser as P
    shim = _DatetimeModuleShim()
    tshim = _TimeModuleShim()
    D.datetime = shim
    DEC.datetime = shim
    P.datetime = shim
    DEC.time = tshim
    # every module of the library that holds the datetime / time MODULE under its usual name reads the simulated clock
    # (a change to the library that starts reading the clock somewhere else must not escape the seam)
    import time as _t
    # The shim class is not the class of the datetimes that flow through the library (those are real datetime.datetime objects),
    # so an exact-type test `type(x) is datetime.datetime` inside a shimmed module is always False: a fast path guarded that way
    # would never be taken under simulation.  In one worker class out of four the calendar module (which reads no clock) therefore
    # keeps the real datetime module; pyg_base._dates, where every clock read of the library lives, is always shimmed.
    keep_real = {'pyg_base._drange'} if os.environ.get('VERIF_DRANGE_REAL_DT') == '1' else set()
    if keep_real:
        import pyg_base._drange as _R
        _R.datetime = _real
    for name, m in list(sys.modules.items()):
        if name.startswith('pyg_base') and m is not None and name not in keep_real:
            if getattr(m, 'datetime', None) is _real:
                m.datetime = shim
            if getattr(m, 'time', None) is _t:
                m.time = tshim
    # ... and so does anything that imports time afterwards: time.time() itself follows the simulated clock.  The harness
    # never calls it (it uses time.monotonic for its wall caps), asyncio loops use monotonic clocks of their own.
    _t.time = _TimeModuleShim.time
    _t.time_ns = lambda: int(_TimeModuleShim.time() * 1e9)

    now = SimDateTime.now
    # defaults captured at definition time
    D.dt.__kwdefaults__['none'] = now
    D.ymd.__kwdefaults__['none'] = now
    D.none2dt.__defaults__ = (now,)
    D.dt.now = now
    D.ndt.now = now
    # the library logs (a try_* wrapper built with verbose=True warns with the error text): the log calls are made as shipped -
    # level checks, filters and all - but whatever handlers were installed are replaced by one that discards the record
    for nm in [n_ for n_ in list(logging.root.manager.loggerDict) if n_ == 'pyg' or n_.startswith('pyg.') or n_.startswith('pyg_')] + ['pyg']:
        lg = logging.getLogger(nm)
        for h in list(lg.handlers):
            lg.removeHandler(h)
        lg.addHandler(logging.NullHandler())
        lg.propagate = False
    logging.lastResort = logging.NullHandler()
    for h in list(logging.getLogger().handlers):
        logging.getLogger().removeHandler(h)
    warnings.filterwarnings('ignore')
    _installed = True


def reset_library_state():
    """process-global state of the library, reset at the start of every run so that runs in one
    worker are independent of their order"""
    import pyg_base._drange as R
    R.calendars.clear()
    import pyg_base._dictable as T
    pc = getattr(T, '_print_cols', None)
    if pc is not None and hasattr(pc, 'cache_clear'):
        pc.cache_clear()
