"""Batch runner: seeded runs across worker subprocesses, violation triage (known findings),
minimisation, fresh-interpreter replay, evidence writing.

Exit codes of a check:  0 held on everything explored (KNOWN-FINDING lines allowed)
                        1 VIOLATION property=<id> replay=<path>
                        3 HARNESS-ERROR (exception in harness/model code, dead or timed-out worker,
                          a violation that does not replay) -- never reported as a pass
"""
import array
import faulthandler
import importlib
import json
import os
import shutil
import signal
import subprocess
import sys
import time
import traceback

from sim.core import Streams, Result, RunTimeout, digest, hash_seed_for, HASH_SEEDS, jdump

VERIF = os.path.dirname(os.path.dirname(os.path.abspath(__file__)))
PY = sys.executable
CHECK = os.path.join(VERIF, 'check.py')
RUN_ALARM_S = 60
THOROUGH_OFFSET = 16 * 10 ** 7
TZ_CLASSES = ['UTC0', 'GMT0BST,M3.5.0/1,M10.5.0', 'EST5EDT,M3.2.0,M11.1.0', 'JST-9', 'UTC0']      # POSIX rules: no tz database needed
CPU_CLASSES = [16, 1, 2, 4, 8, 64, 16]


def load(prop):
    return importlib.import_module('props.' + prop.lower())


def known_findings(prop):
    path = os.path.join(VERIF, 'known_findings.json')
    if not os.path.exists(path):
        return []
    with open(path) as f:
        data = json.load(f)
    return [e for e in data.get('findings', []) if e.get('property') == prop and e.get('status') == 'known']


# ----------------------------------------------------------------------------------------------
# one run
# ----------------------------------------------------------------------------------------------
def _alarm(signum, frame):
    raise RunTimeout()


def execute_guarded(mod, trace):
    """execute with the per-run alarm; a run that does not return is a violation ('hang')"""
    from sim import seams
    seams.reset_library_state()
    # the budget is CPU time of this process, not wall-clock time: a machine under load, or a sandbox that is frozen for a
    # snapshot and resumed a minute later, must not turn a millisecond run into a 'hang' (it did once, in a background soak).
    # A run that blocks without burning CPU is left to the wall-clock watchdog in worker_main, which is far longer.
    # A run that BLOCKS (a lock never released, say) uses no CPU: for that there is a wall-clock alarm in two stages - after
    # RUN_ALARM_S seconds a first signal only re-arms a short second one, and only if the run has still not returned then is it
    # a hang.  A frozen sandbox sets off the first stage on resuming; the millisecond run then returns long before the second.
    stage = {'n': 0}

    def _wall(signum, frame):
        if stage['n'] == 0:
            stage['n'] = 1
            signal.setitimer(signal.ITIMER_REAL, 15)
            return
        raise RunTimeout()
    signal.signal(signal.SIGPROF, _alarm)
    signal.signal(signal.SIGALRM, _wall)
    signal.setitimer(signal.ITIMER_PROF, RUN_ALARM_S)
    signal.setitimer(signal.ITIMER_REAL, RUN_ALARM_S)
    try:
        res = mod.execute(trace)
    except RunTimeout:
        res = Result()
        res.violation = {'cls': 'hang', 'msg': 'the run did not return within %d s of CPU time, or stayed blocked for %d s of wall-clock time' % (RUN_ALARM_S, RUN_ALARM_S + 15),
                         'step': None}
    finally:
        signal.setitimer(signal.ITIMER_PROF, 0)
        signal.setitimer(signal.ITIMER_REAL, 0)
    return res


def run_index(mod, seed, index):
    st = Streams(mod.PROP, seed, index)
    trace = mod.generate(st)
    trace['prop'] = mod.PROP
    res = execute_guarded(mod, trace)
    return trace, res


# ----------------------------------------------------------------------------------------------
# worker (a subprocess with a fixed PYTHONHASHSEED)
# ----------------------------------------------------------------------------------------------
def worker_main(prop, seed, start, stride, count, out_dir, wallcap, log_digests, run_offset=0, deep=False):
    faulthandler.enable()
    from sim import seams
    seams.install()
    mod = load(prop)
    known = {e['signature']: e for e in known_findings(prop)}
    t0 = time.monotonic()
    agg = {'runs': 0, 'nontrivial': 0, 'steps': 0, 'sim_time': 0.0, 'faults': {}, 'probes': {}, 'stats': {},
           'known_hits': {}, 'violation': None, 'harness_error': None, 'samples': [], 'stopped_by': 'count',
           'fault_runs': 0, 'ops_between_faults': []}
    digests = set()
    nt_digests = set()
    sets = {}
    dlog = open(os.path.join(out_dir, 'digests-%d.txt' % start), 'w') if log_digests else None
    pending_path = os.path.join(out_dir, 'pending-%d.json' % start)
    i = start
    done = 0
    while done < count:
        if wallcap and time.monotonic() - t0 > wallcap:
            agg['stopped_by'] = 'wallcap'
            break
        index = run_offset + i
        try:
            st = Streams(mod.PROP, seed, index)
            st.deep = deep
            trace = mod.generate(st)
            trace['prop'] = mod.PROP
            with open(pending_path, 'w') as f:     # a hang leaves a replayable trace behind
                f.write(jdump({'prop': prop, 'seed': seed, 'index': index, 'trace': trace}))
            faulthandler.dump_traceback_later(10 * RUN_ALARM_S, exit=True)      # wall clock: only for a run that blocks without using CPU
            res = execute_guarded(mod, trace)
            faulthandler.cancel_dump_traceback_later()
        except Exception:
            agg['harness_error'] = {'index': index, 'traceback': traceback.format_exc()}
            break
        d = digest(trace, res.obs, res.violation and res.violation['cls'])
        di = int(d, 16)
        digests.add(di)
        if res.nontrivial:
            agg['nontrivial'] += 1
            nt_digests.add(di)
        agg['runs'] += 1
        agg['steps'] += res.steps
        agg['sim_time'] += res.sim_time
        if res.faults:
            agg['fault_runs'] += 1
        for k, v in res.faults.items():
            agg['faults'][k] = agg['faults'].get(k, 0) + v
        for k, v in res.probes.items():
            agg['probes'][k] = agg['probes'].get(k, 0) + v
        for k, v in res.stats.items():
            agg['stats'][k] = agg['stats'].get(k, 0) + v
        for k, s in res.sets.items():
            sets.setdefault(k, set()).update(s)
        sets.setdefault('states', set()).update(res.state_keys)
        if dlog:
            dlog.write('%d %s %s\n' % (index, d, res.violation['cls'] if res.violation else '-'))
        if len(agg['samples']) < 2 and res.nontrivial and not res.violation:
            agg['samples'].append({'index': index, 'trace': trace, 'observed': res.obs})
        if res.violation:
            sig = mod.signature(trace, res.violation)
            if sig in known:
                agg['known_hits'][sig] = agg['known_hits'].get(sig, 0) + 1
            else:
                agg['violation'] = {'index': index, 'hash_seed': os.environ.get('PYTHONHASHSEED'),
                                    'trace': trace, 'violation': res.violation, 'signature': sig,
                                    'history': {'argv': list(sys.argv[1:]), 'start': start, 'stride': stride, 'run_offset': run_offset, 'deep': bool(deep), 'i': i, 'done': done,
                                                'log_digests': bool(log_digests)}}
                break
        i += stride
        done += 1
    if dlog:
        dlog.close()
    try:
        os.remove(pending_path)
    except OSError:
        pass
    agg['wall'] = time.monotonic() - t0
    with open(os.path.join(out_dir, 'digests-%d.bin' % start), 'wb') as f:
        array.array('Q', sorted(digests)).tofile(f)
    with open(os.path.join(out_dir, 'ntdigests-%d.bin' % start), 'wb') as f:
        array.array('Q', sorted(nt_digests)).tofile(f)
    agg['sets'] = {k: sorted(v) for k, v in sets.items()}
    with open(os.path.join(out_dir, 'result-%d.json' % start), 'w') as f:
        json.dump(agg, f)
    return 0


# ----------------------------------------------------------------------------------------------
# parent
# ----------------------------------------------------------------------------------------------
_ENV_KEEP = ('PATH', 'HOME', 'LANG', 'LC_ALL', 'LD_LIBRARY_PATH', 'VERIF_REPO', 'TMPDIR')


def _no_aslr():
    # where an object lives in memory is a source of nondeterminism too (id()-keyed caches, address-based hashes of objects in
    # sets): worker processes run without address-space randomisation, so that the same arguments and environment give the same
    # addresses.  Where the system call is refused the worker simply runs with randomisation.
    try:
        import ctypes
        ctypes.CDLL(None).personality(0x0040000)        # ADDR_NO_RANDOMIZE, inherited across exec
    except Exception:
        pass


def _spawn(args, hash_seed, env_extra=None):
    # a fixed, small environment: what the invoking shell happens to export shifts addresses in the child
    env = {k_: os.environ[k_] for k_ in _ENV_KEEP if k_ in os.environ}
    env['PYTHONHASHSEED'] = str(hash_seed)
    env['PYTHONDONTWRITEBYTECODE'] = '1'
    env['OMP_NUM_THREADS'] = '1'
    env['OPENBLAS_NUM_THREADS'] = '1'
    env['MKL_NUM_THREADS'] = '1'
    # the worker's time zone and apparent CPU count are part of its (seeded, replayable) configuration class
    k_ = HASH_SEEDS.index(int(hash_seed)) if int(hash_seed) in HASH_SEEDS else int(hash_seed) % 16
    env['TZ'] = TZ_CLASSES[k_ % len(TZ_CLASSES)]
    env['VERIF_CPU_COUNT'] = str(CPU_CLASSES[k_ % len(CPU_CLASSES)])
    env['VERIF_DRANGE_REAL_DT'] = '1' if k_ % 4 == 3 else '0'      # see sim/seams.py: exact-type tests against datetime
    if env_extra:
        env.update(env_extra)
    return subprocess.Popen([PY, CHECK] + args, env=env, cwd=VERIF, stdout=subprocess.PIPE, stderr=subprocess.STDOUT, text=True, preexec_fn=_no_aslr)


def batch(prop, tier, seed, runs=None, workers=None, wallcap=None, log_digests=False, out_dir=None,
          write_evidence=True, quiet=False):
    mod = load(prop)
    cfg = dict(mod.TIERS[tier])
    if runs is not None:
        cfg['runs'] = runs
    if wallcap is not None:
        cfg['wallcap'] = wallcap
    nclass = len(HASH_SEEDS)
    workers = workers or min(16, os.cpu_count() or 1)
    t0 = time.monotonic()
    keep_out = out_dir is not None
    out_dir = out_dir or os.path.join(VERIF, '.work', '%s-%s-%08d' % (prop, tier[0], os.getpid()))     # fixed length: it is part of the workers' argv
    shutil.rmtree(out_dir, ignore_errors=True)
    os.makedirs(out_dir)
    per = [len(range(k, cfg['runs'], nclass)) for k in range(nclass)]
    jobs = [(k, per[k]) for k in range(nclass) if per[k] > 0]
    running = []
    results = []
    errors = []
    hard = cfg['wallcap'] + 180
    queue = list(jobs)
    while queue or running:
        while queue and len(running) < workers:
            k, n = queue.pop(0)
            args = [prop, '--worker', '--seed', str(seed), '--start', str(k), '--stride', str(nclass), '--count', str(n),
                    '--out', out_dir, '--wallcap', str(cfg['wallcap'])]
            if tier == 'thorough':
                # the thorough tier explores other runs than the quick tier (disjoint index range, a multiple of the
                # number of hash-seed classes) and draws the larger "deep" configurations
                args += ['--run-offset', str(THOROUGH_OFFSET), '--deep']
            if log_digests:
                args.append('--log-digests')
            running.append((k, _spawn(args, HASH_SEEDS[k]), time.monotonic()))
        still = []
        for k, p, started in running:
            rc = p.poll()
            if rc is None:
                if time.monotonic() - started > hard:
                    p.kill()
                    p.wait()
                    errors.append('worker %d exceeded the hard timeout of %d s; pending trace: %s' % (k, hard, _pending(out_dir, k)))
                else:
                    still.append((k, p, started))
                continue
            out = p.stdout.read()
            path = os.path.join(out_dir, 'result-%d.json' % k)
            if rc != 0 or not os.path.exists(path):
                errors.append('worker %d exited %s without a result; pending trace: %s\n%s' % (k, rc, _pending(out_dir, k), out[-3000:]))
            else:
                with open(path) as f:
                    r = json.load(f)
                r['class'] = k
                results.append(r)
        running = still
        if running:
            time.sleep(0.05)
    results.sort(key=lambda r: r['class'])
    # ---- aggregate ----
    agg = {'runs': 0, 'nontrivial': 0, 'steps': 0, 'sim_time': 0.0, 'faults': {}, 'probes': {}, 'stats': {}, 'known_hits': {},
           'fault_runs': 0}
    sets = {}
    all_d = set()
    nt_d = set()
    samples = []
    stopped = set()
    for r in results:
        for key in ('runs', 'nontrivial', 'steps', 'sim_time', 'fault_runs'):
            agg[key] += r[key]
        for name in ('faults', 'probes', 'stats', 'known_hits'):
            for k2, v in r[name].items():
                agg[name][k2] = agg[name].get(k2, 0) + v
        for k2, v in r['sets'].items():
            sets.setdefault(k2, set()).update(v)
        stopped.add(r['stopped_by'])
        samples.extend(r['samples'])
        for nm, tgt in (('digests', all_d), ('ntdigests', nt_d)):
            a = array.array('Q')
            with open(os.path.join(out_dir, '%s-%d.bin' % (nm, r['class'])), 'rb') as f:
                a.frombytes(f.read())
            tgt.update(a)
        if r.get('harness_error'):
            errors.append('run %s: %s' % (r['harness_error']['index'], r['harness_error']['traceback'][-1500:]))
    violations = sorted([r['violation'] for r in results if r.get('violation')], key=lambda v: v['index'])
    wall = time.monotonic() - t0
    report = {'agg': agg, 'sets': sets, 'distinct': len(all_d), 'distinct_nontrivial': len(nt_d), 'samples': samples[:3],
              'stopped_by': sorted(stopped), 'violations': violations, 'errors': errors, 'wall': wall, 'cfg': cfg,
              'workers': workers, 'out_dir': out_dir}
    exit_code = 0
    lines = []
    # ---- known findings ----
    kf = {e['signature']: e for e in known_findings(prop)}
    for sig, n in sorted(agg['known_hits'].items()):
        lines.append('KNOWN-FINDING: property=%s %s (hit %d times; %s)' % (prop, sig, n, kf.get(sig, {}).get('description', '')))
    # ---- violations: minimise the earliest one, confirm in a fresh interpreter ----
    report['replays'] = []
    if violations:
        v = violations[0]
        ok, path, msg = minimise_and_confirm(prop, seed, v, out_dir)
        if ok:
            lines.append('VIOLATION property=%s replay=%s' % (prop, path))
            lines.append('  %s' % msg)
            report['replays'].append(path)
            exit_code = 1
        else:
            errors.append('violation at run %d did not replay: %s' % (v['index'], msg))
    if errors:
        for e in errors:
            lines.append('HARNESS-ERROR property=%s %s' % (prop, e))
        if exit_code == 0:
            exit_code = 3
    if write_evidence:
        write_evidence_file(mod, prop, tier, seed, report, exit_code)
    if not keep_out:
        shutil.rmtree(out_dir, ignore_errors=True)
        try:
            os.rmdir(os.path.join(VERIF, '.work'))
        except OSError:
            pass
    if not quiet:
        rate = agg['runs'] / wall * 3600 if wall > 0 else 0
        print('%s %s seed=%d: %d runs (%d distinct non-trivial) in %.1fs = %.0f runs/hour; steps=%d sim_time=%.0fs; faults fired=%s'
              % (prop, tier, seed, agg['runs'], len(nt_d), wall, rate, agg['steps'], agg['sim_time'], jdump(agg['faults'])))
        zero = [p for p in getattr(mod, 'PROBES', []) if not agg['probes'].get(p)]
        if zero:
            print('  probes never hit in this batch: %s' % zero)
        for ln in lines:
            print(ln)
        sys.stdout.flush()
    report['exit_code'] = exit_code
    report['lines'] = lines
    return report


def _pending(out_dir, k):
    p = os.path.join(out_dir, 'pending-%d.json' % k)
    if os.path.exists(p):
        keep = os.path.join(VERIF, 'replays', 'pending-%d-%d.json' % (os.getpid(), k))
        os.makedirs(os.path.dirname(keep), exist_ok=True)
        shutil.copy(p, keep)
        return keep
    return None


def minimise_and_confirm(prop, seed, v, out_dir):
    os.makedirs(os.path.join(VERIF, 'replays'), exist_ok=True)
    raw = os.path.join(out_dir, 'raw-violation.json')
    hs = v.get('hash_seed') or hash_seed_for(v['index'])
    rec = {'prop': prop, 'seed': seed, 'index': v['index'], 'hash_seed': int(hs), 'trace': v['trace'],
           'violation': v['violation'], 'signature': v['signature'], 'minimised': False}
    with open(raw, 'w') as f:
        json.dump(rec, f)
    d = digest(v['trace'])
    final = os.path.join(VERIF, 'replays', '%s-%s.json' % (prop, d))
    p = _spawn([prop, '--minimise', raw, '--out', final], hs)
    try:
        out, _ = p.communicate(timeout=300)
    except subprocess.TimeoutExpired:
        p.kill()
        out = 'minimiser timed out'
    if not os.path.exists(final):
        shutil.copy(raw, final)
    for attempt in (final, raw):
        p = _spawn([prop, '--replay', attempt], hs)
        try:
            out, _ = p.communicate(timeout=RUN_ALARM_S + 120)
        except subprocess.TimeoutExpired:
            p.kill()
            return False, attempt, 'replay timed out'
        if p.returncode == 1 and 'VIOLATION' in out:
            if attempt is raw:
                shutil.copy(raw, final)
            with open(final) as f:
                r = json.load(f)
            vv = r.get('violation') or rec['violation']
            return True, final, '%s: %s' % (vv['cls'], vv['msg'][:400])
    # the failure may depend on what earlier runs left behind in the worker process (a module-level cache in the library,
    # say): replay the worker's own history in one fresh process and keep the shortest suffix of it that still fails
    if v.get('history'):
        rec['history'] = v['history']
        with open(raw, 'w') as f:
            json.dump(rec, f)
        p = _spawn([prop, '--history', raw, '--out', final], hs)
        try:
            out, _ = p.communicate(timeout=900)
        except subprocess.TimeoutExpired:
            p.kill()
            out = 'history replay timed out'
        if p.returncode == 0 and os.path.exists(final):
            p = _spawn([prop, '--replay', final], hs)
            try:
                out, _ = p.communicate(timeout=RUN_ALARM_S + 600)
            except subprocess.TimeoutExpired:
                p.kill()
                return False, final, 'history replay timed out'
            if p.returncode == 1 and 'VIOLATION' in out:
                with open(final) as f:
                    r = json.load(f)
                return True, final, '%s: %s  [needs %d earlier run(s) in the same process: state survives between runs]' % (
                    r['violation']['cls'], r['violation']['msg'][:400], len(r.get('prelude', [])))
    # last resort: the failure may depend on where objects happen to live in memory (a cache keyed by id(), say); then only
    # the worker's own code path, run again from its first run, allocates the same way.  The replay file asks for exactly that.
    if v.get('history'):
        rec3 = dict(rec)
        rec3['worker_replay'] = dict(v['history'], seed=seed, hash_seed=int(hs))
        rec3['minimised'] = False
        with open(final, 'w') as f:
            json.dump(rec3, f, indent=1)
        p = _spawn([prop, '--replay', final], hs)
        try:
            out, _ = p.communicate(timeout=RUN_ALARM_S + 900)
        except subprocess.TimeoutExpired:
            p.kill()
            return False, final, 'worker replay timed out'
        if p.returncode == 1 and 'VIOLATION' in out:
            return True, final, '%s: %s  [reproduces only through the worker\'s own run history (%d runs): depends on process state such as object addresses]' % (
                v['violation']['cls'], v['violation']['msg'][:300], v['history'].get('done', 0) + 1)
    return False, final, 'neither the minimised nor the raw trace, nor the worker\'s run history, nor a re-run of the worker reproduced in a fresh interpreter: %s' % out[-500:]


def history_main(prop, raw, out):
    """re-creates the traces the worker had executed before the failing one and finds the shortest suffix of that history
    (tried in separate fresh subprocesses) after which the failing trace still fails"""
    from sim import seams
    seams.install()
    mod = load(prop)
    with open(raw) as f:
        rec = json.load(f)
    h = rec['history']
    traces = []
    i = h['start']
    while i < h['i']:
        st = Streams(mod.PROP, rec['seed'], h['run_offset'] + i)
        st.deep = h.get('deep', False)
        t = mod.generate(st)
        t['prop'] = mod.PROP
        traces.append(t)
        i += h['stride']
    want = rec['violation']['cls']

    def fails_after(prelude):
        tmp = out + '.try'
        r = dict(rec)
        r['prelude'] = prelude
        with open(tmp, 'w') as f:
            json.dump(r, f)
        p = subprocess.run([PY, CHECK, prop, '--replay', tmp], capture_output=True, text=True, env=dict(os.environ), cwd=VERIF)
        os.remove(tmp)
        return p.returncode == 1 and want in p.stdout

    if not fails_after(traces):
        print('the full history does not reproduce either')
        return 2
    best = traces
    for cand in ([], traces[-1:], traces[:1], traces[-2:], traces[-4:], traces[-8:], traces[len(traces) // 2:]):
        if len(cand) < len(best) and fails_after(cand):
            best = cand
            break
    rec2 = dict(rec)
    rec2['prelude'] = best
    rec2['minimised'] = False
    rec2['replay_cmd'] = '%s %s %s --replay %s' % (PY, CHECK, prop, out)
    with open(out, 'w') as f:
        json.dump(rec2, f, indent=1)
    print('history of %d runs reduced to a prelude of %d' % (len(traces), len(best)))
    return 0


def minimise_main(prop, raw, out):
    from sim import seams
    from sim.shrink import minimise
    seams.install()
    mod = load(prop)
    with open(raw) as f:
        rec = json.load(f)
    res = execute_guarded(mod, rec['trace'])
    if not res.violation:
        print('raw trace does not fail in the minimiser process')
        return 2
    small, tried = minimise(mod, rec['trace'], res.violation)
    res2 = execute_guarded(mod, small)
    if not res2.violation:
        # what the library keeps between runs (or where objects live) decided: the shrunk trace failed while shrinking and does
        # not fail now.  The raw trace is the replay then; the caller goes on to the process-history / worker re-run replays
        print('the minimised trace does not fail when run again in the same process: keeping the raw trace')
        return 2
    rec2 = dict(rec)
    rec2['trace'] = small
    rec2['violation'] = res2.violation
    rec2['minimised'] = True
    rec2['original_size'] = mod.size(rec['trace'])
    rec2['size'] = mod.size(small)
    rec2['candidates_tried'] = tried
    rec2['replay_cmd'] = '%s %s %s --replay %s' % (PY, CHECK, prop, out)
    with open(out, 'w') as f:
        json.dump(rec2, f, indent=1)
    print('minimised %d -> %d (%d candidates)' % (rec2['original_size'], rec2['size'], tried))
    return 0


def replay_main(prop, path):
    with open(path) as f:
        rec = json.load(f)
    hs = str(rec.get('hash_seed', 0))
    if os.environ.get('PYTHONHASHSEED') != hs or 'VERIF_CPU_COUNT' not in os.environ:
        p = _spawn([prop, '--replay', path], hs)        # same hash seed, time zone and CPU-count class as the failing worker
        out, _ = p.communicate()
        sys.stdout.write(out)
        return p.returncode
    from sim import seams
    seams.install()
    mod = load(prop)
    for t in rec.get('prelude', []):
        execute_guarded(mod, t)          # earlier runs of the same worker process; only their side effects matter
    res = execute_guarded(mod, rec['trace'])
    print('replay %s (seed=%s index=%s hashseed=%s prelude=%d)' % (path, rec.get('seed'), rec.get('index'), hs, len(rec.get('prelude', []))))
    if not res.violation and rec.get('worker_replay'):
        w = rec['worker_replay']
        tmp = os.path.join(VERIF, '.work', 'replay-%d' % os.getpid())
        shutil.rmtree(tmp, ignore_errors=True)
        os.makedirs(tmp)
        got = None
        if w.get('argv') and '--out' in w['argv']:
            # first the worker exactly as it was started (same arguments, same environment class, no address randomisation):
            # then also the addresses are the same and the failure strikes at the same run
            out0 = w['argv'][w['argv'].index('--out') + 1]
            existed = os.path.isdir(out0)
            os.makedirs(out0, exist_ok=True)
            p = _spawn(list(w['argv']), w['hash_seed'])
            p.communicate()
            rp = os.path.join(out0, 'result-%d.json' % w['start'])
            if os.path.exists(rp):
                with open(rp) as f:
                    got = json.load(f).get('violation')
            if not existed:
                shutil.rmtree(out0, ignore_errors=True)
            print('re-ran the worker with its original arguments')
            if got:
                print('VIOLATION property=%s replay=%s' % (prop, path))
                print('  %s: %s%s' % (got['violation']['cls'], got['violation']['msg'],
                                      '' if got['index'] == rec['index'] else '  [struck at run %d this time, %d originally: depends on memory layout]' % (got['index'], rec['index'])))
                return 1
        # a failure that depends on memory layout need not strike at the very same run again: the worker is given four times
        # as many runs, and a violation of the same class anywhere in them counts as the reproduction
        args = [prop, '--worker', '--seed', str(w['seed']), '--start', str(w['start']), '--stride', str(w['stride']), '--count', str(4 * (w['done'] + 1) + 50),
                '--out', tmp, '--wallcap', '100000']
        if w.get('run_offset'):
            args += ['--run-offset', str(w['run_offset'])]
        if w.get('deep'):
            args.append('--deep')
        if w.get('log_digests'):
            args.append('--log-digests')
        p = _spawn(args, w['hash_seed'])
        p.communicate()
        rp = os.path.join(tmp, 'result-%d.json' % w['start'])
        got = None
        if os.path.exists(rp):
            with open(rp) as f:
                got = json.load(f).get('violation')
        shutil.rmtree(tmp, ignore_errors=True)
        try:
            os.rmdir(os.path.join(VERIF, '.work'))
        except OSError:
            pass
        print('re-ran the worker (up to %d runs from index %d, stride %d)' % (4 * (w['done'] + 1) + 50, w['run_offset'] + w['start'], w['stride']))
        if got:      # any violation of the property in the re-run (class and run may differ when memory layout decides)
            print('VIOLATION property=%s replay=%s' % (prop, path))
            print('  %s: %s%s' % (got['violation']['cls'], got['violation']['msg'],
                                  '' if got['index'] == rec['index'] else '  [struck at run %d this time, %d originally: depends on memory layout]' % (got['index'], rec['index'])))
            return 1
        print('no violation on this tree')
        return 0
    if res.violation:
        sig = mod.signature(rec['trace'], res.violation)
        if any(e['signature'] == sig for e in known_findings(prop)):
            print('KNOWN-FINDING: property=%s %s' % (prop, sig))
            return 0
        print('VIOLATION property=%s replay=%s' % (prop, path))
        print('  %s: %s' % (res.violation['cls'], res.violation['msg']))
        return 1
    print('no violation on this tree')
    return 0


# ----------------------------------------------------------------------------------------------
# evidence
# ----------------------------------------------------------------------------------------------
def write_evidence_file(mod, prop, tier, seed, report, exit_code):
    agg = report['agg']
    wall = report['wall']
    runs = agg['runs']
    sets = report['sets']
    ev = {
        'property_id': prop,
        'tier': tier,
        'seed': seed,
        'level': 'exploration',
        'wall_s': round(wall, 2),
        'violations': len(report['violations']),
        'coverage': {
            'evaluations': runs,
            'distinct_nontrivial': report['distinct_nontrivial'],
            'rule': mod.RULE,
            'samples': report['samples'] or [{'note': 'no non-trivial violation-free run in this batch'}],
            'distinct_runs': report['distinct'],
            'nontrivial_runs': agg['nontrivial'],
            'runs_per_hour': round(runs / wall * 3600) if wall > 0 else 0,
            'seeds_per_hour': round(runs / wall * 3600) if wall > 0 else 0,
            'simulated_time_s': round(agg['sim_time'], 3),
            'steps_executed': agg['steps'],
            'fault_kinds_fired': agg['faults'],
            'runs_with_a_fired_fault': agg['fault_runs'],
            'steps_per_fired_fault': round(agg['steps'] / max(sum(agg['faults'].values()), 1), 2),
            'probes': {p: agg['probes'].get(p, 0) for p in sorted(set(list(getattr(mod, 'PROBES', [])) + list(agg['probes'])))},
            'probes_never_hit': [p for p in getattr(mod, 'PROBES', []) if not agg['probes'].get(p)],
            'distinct_measures': {k: len(v) for k, v in sorted(sets.items())},
            'stats': agg['stats'],
            'components': mod.COMPONENTS,
            'workers': report['workers'],
            'hash_seeds_cycled': HASH_SEEDS,
            'time_zone_classes': TZ_CLASSES,
            'cpu_count_classes': CPU_CLASSES,
            'clock_seam_variants': 'worker classes 3, 7, 11, 15 keep the real datetime module in pyg_base._drange (exact-type tests against datetime '
                                   'behave as shipped there); all others shim it; pyg_base._dates is always shimmed',
            'address_space': 'workers run without address-space randomisation and with a fixed environment, so that id()-dependent behaviour replays',
            'stopped_by': report['stopped_by'],
            'requested_runs': report['cfg']['runs'],
            'known_finding_hits': agg['known_hits'],
            'harness_errors': len(report['errors']),
            'exit_code': exit_code,
            'replays': report.get('replays', []),
        },
        'assumptions': list(getattr(mod, 'ASSUMPTIONS', [])) + [
            'sampling, not enumeration: the property held on the seeded runs listed here, nothing more',
            'CPython 3.12, pandas/numpy/dateutil as installed in /venv are trusted',
        ],
    }
    extra = getattr(mod, 'evidence_extra', None)
    if extra:
        ev['coverage'].update(extra(report))
    os.makedirs(os.path.join(VERIF, 'evidence'), exist_ok=True)
    path = os.path.join(VERIF, 'evidence', '%s.json' % prop)
    tmp = path + '.tmp'
    with open(tmp, 'w') as f:
        json.dump(ev, f, indent=1, default=str)
    os.replace(tmp, path)
