"""A virtual-time asyncio event loop whose every scheduling decision comes from a Tape.

Real code: asyncio's Task, Future, gather, sleep, Event (all pure Python/C implementations that
only talk to the loop through call_soon / call_at / time).  Stub: the selector (there is no I/O)
and the clock.

Only *legal* schedules are produced, i.e. schedules a real event loop may exhibit:
  * call_soon callbacks run FIFO (asyncio documents that order, code may rely on it);
  * a timer never fires early, but may fire late (seeded jitter, as under a loaded machine);
  * timers that are due in the same iteration run in a seeded order (asyncio's heap gives no
    guarantee among them once lateness is allowed).
When nothing is ready the clock jumps to the next timer, so an hour of sleeping costs microseconds.
"""
import asyncio
import heapq


class Deadlock(Exception):
    """run_forever would block for ever: nothing ready, nothing scheduled"""


class StepCap(Exception):
    """the loop iteration budget was exhausted"""


class _NoSelector:
    def select(self, timeout=None):
        return []

    def close(self):
        pass


class VirtualLoop(asyncio.BaseEventLoop):
    JITTER = (0.0, 0.0, 0.0, 0.0, 0.25, 1.0, 2.5)

    def __init__(self, tape, step_cap=10000, jitter=True):
        super().__init__()
        self._vtime = 0.0
        self._tape = tape
        self._selector = _NoSelector()
        self.iterations = 0
        self.step_cap = step_cap
        self.jitter = jitter
        self.tasks = []            # in creation order (asyncio.all_tasks iterates a WeakSet)
        self.timer_ties = 0        # iterations in which >1 timers were due together
        self.late_timers = 0
        self.set_task_factory(self._factory)

    # --- seams -------------------------------------------------------------------------------
    def time(self):
        return self._vtime

    def _process_events(self, event_list):
        pass

    def _write_to_self(self):
        pass

    def _factory(self, loop, coro, **kwargs):
        kwargs.pop('name', None)
        task = asyncio.Task(coro, loop=loop, name='t%d' % len(self.tasks), **kwargs)
        self.tasks.append(task)
        return task

    def call_at(self, when, callback, *args, context=None):
        if self.jitter:
            j = self.JITTER[self._tape.draw(len(self.JITTER))]
            if j:
                self.late_timers += 1
                when = when + j
        return super().call_at(when, callback, *args, context=context)

    # --- the scheduler -----------------------------------------------------------------------
    def _run_once(self):
        self.iterations += 1
        if self.iterations > self.step_cap:
            raise StepCap('more than %d loop iterations' % self.step_cap)
        sched = self._scheduled
        while sched and sched[0]._cancelled:
            h = heapq.heappop(sched)
            h._scheduled = False
        if not self._ready:
            if not sched:
                raise Deadlock('nothing ready and no timer scheduled')
            if sched[0]._when > self._vtime:
                self._vtime = sched[0]._when
        due = []
        while sched and sched[0]._when <= self._vtime:
            h = heapq.heappop(sched)
            h._scheduled = False
            if not h._cancelled:
                due.append(h)
        if len(due) > 1:
            self.timer_ties += 1
            # seeded permutation (Fisher-Yates driven by the tape; an exhausted tape = identity)
            for i in range(len(due) - 1):
                j = i + self._tape.draw(len(due) - i)
                due[i], due[j] = due[j], due[i]
        self._ready.extend(due)
        for _ in range(len(self._ready)):
            handle = self._ready.popleft()
            if handle._cancelled:
                continue
            handle._run()
        handle = None

    # --- running a main coroutine to completion and cleaning up deterministically -------------
    def run_main(self, coro_fn):
        """returns ('ok', value) | ('exc', exception) | ('deadlock', None) | ('stepcap', None)"""
        asyncio.set_event_loop(self)
        try:
            main = self.create_task(coro_fn())
            self.main_task = main
            try:
                self.run_until_complete(main)
            except Deadlock:
                outcome = ('deadlock', None)
            except StepCap:
                outcome = ('stepcap', None)
            except asyncio.CancelledError as e:
                outcome = ('exc', e)
            except Exception as e:
                outcome = ('exc', e)
            else:
                outcome = ('ok', main.result())
            return outcome
        finally:
            self._cleanup()

    def _cleanup(self):
        try:
            pending = [t for t in self.tasks if not t.done()]
            for t in pending:
                t.cancel()
            self.step_cap = self.iterations + 2000
            self._tape = _ZeroTape()
            if pending:
                async def _drain():
                    await asyncio.gather(*pending, return_exceptions=True)
                try:
                    self.run_until_complete(_drain())
                except (Deadlock, StepCap, asyncio.CancelledError, Exception):
                    pass
            for t in self.tasks:
                if t.done() and not t.cancelled():
                    t.exception()      # mark retrieved; no "never retrieved" noise
        finally:
            asyncio.set_event_loop(None)
            self.set_exception_handler(lambda loop, ctx: None)
            try:
                self.close()
            except Exception:
                pass


class _ZeroTape:
    def draw(self, n):
        return 0
