"""Core of the deterministic simulator: seeded streams, tapes, digests, outcome types.

Everything that decides a run is derived from the run key "<prop>:<VERIF_SEED>:<index>".
random.Random(str) seeds through SHA-512 of the string, so the streams are identical in every
process and under every PYTHONHASHSEED.  Nothing in here reads a real clock or draws from a
stream while logging.
"""
import hashlib
import json
import math
import random
import datetime as _real_datetime

# the hash seeds a batch cycles through; run i executes in a subprocess started with
# PYTHONHASHSEED = HASH_SEEDS[i % len(HASH_SEEDS)] -- a seeded, replayable configuration
HASH_SEEDS = [0, 1, 2, 3, 5, 8, 13, 21, 34, 55, 89, 144, 233, 377, 610, 987]


def hash_seed_for(index):
    return HASH_SEEDS[index % len(HASH_SEEDS)]


class Streams:
    """Independent PRNG sub-streams of one run."""

    def __init__(self, prop, seed, index):
        self.key = "%s:%d:%d" % (prop, seed, index)
        self.swarm = random.Random(self.key + ":swarm")
        self.gen = random.Random(self.key + ":gen")
        self.sched = random.Random(self.key + ":sched")
        self.fault = random.Random(self.key + ":fault")
        self.deep = False      # thorough tier: property modules may draw larger configurations


class Tape:
    """A finite list of pre-drawn scheduler decisions.  When it runs out every decision is 0
    (FIFO / no jitter), which is what makes a truncated (shrunk) tape meaningful."""

    def __init__(self, values):
        self.values = list(values)
        self.pos = 0
        self.used = 0

    def draw(self, n):
        """an int in [0, n)"""
        if n <= 1:
            return 0
        if self.pos < len(self.values):
            v = self.values[self.pos] % n
            self.pos += 1
            self.used += 1
            return v
        return 0


def make_tape(rng, n=96):
    return [rng.randrange(1 << 16) for _ in range(n)]


# ----------------------------------------------------------------------------------------------
# outcomes
# ----------------------------------------------------------------------------------------------
class Violation(Exception):
    """The real code contradicted the property.  cls is a short stable oracle id."""

    def __init__(self, cls, msg, step=None):
        Exception.__init__(self, "%s: %s" % (cls, msg))
        self.cls = cls
        self.msg = msg
        self.step = step


class RunTimeout(BaseException):
    """raised by the per-run alarm: the operation under test did not return"""


class Result:
    __slots__ = ('violation', 'obs', 'stats', 'sets', 'faults', 'probes', 'state_keys', 'sim_time', 'steps', 'nontrivial')

    def __init__(self):
        self.violation = None      # None or dict(cls, msg, step)
        self.obs = []              # order-normalised observations (for the digest)
        self.stats = {}            # free counters
        self.faults = {}           # fault kind -> times it actually fired
        self.probes = {}           # rare-branch probes -> hits
        self.sets = {}             # name -> set of strings (coverage measures unioned over runs)
        self.state_keys = set()    # abstract states / interleavings reached (strings)
        self.sim_time = 0.0        # simulated seconds covered
        self.steps = 0             # operations / loop iterations executed
        self.nontrivial = False

    def fault(self, kind, n=1):
        self.faults[kind] = self.faults.get(kind, 0) + n

    def probe(self, name, n=1):
        self.probes[name] = self.probes.get(name, 0) + n

    def stat(self, name, n=1):
        self.stats[name] = self.stats.get(name, 0) + n


# ----------------------------------------------------------------------------------------------
# canonical encoding (JSON-able, order-normalised, type-strict) and digests
# ----------------------------------------------------------------------------------------------
def canon(v):
    """A JSON-serialisable, type-strict, deterministic encoding of a python value."""
    if v is None:
        return None
    if isinstance(v, bool):
        return {'b': int(v)}
    if isinstance(v, int):
        return v
    if isinstance(v, float):
        if math.isnan(v):
            return {'f': 'nan'}
        if math.isinf(v):
            return {'f': 'inf' if v > 0 else '-inf'}
        return {'f': repr(v)}
    if isinstance(v, str):
        return v
    if isinstance(v, _real_datetime.datetime):
        return {'dt': v.isoformat()}
    if isinstance(v, _real_datetime.date):
        return {'d': v.isoformat()}
    if isinstance(v, (list, tuple)):
        return {type(v).__name__: [canon(x) for x in v]}
    if isinstance(v, dict):
        items = [[canon(k), canon(x)] for k, x in v.items()]
        return {type(v).__name__: items}
    if isinstance(v, (set, frozenset)):
        return {'set': sorted(json.dumps(canon(x), sort_keys=True) for x in v)}
    if isinstance(v, BaseException):
        return {'exc': type(v).__name__}
    return {'repr': type(v).__name__}


def jdump(v):
    return json.dumps(v, sort_keys=True, separators=(',', ':'), default=str)


def digest(*parts):
    h = hashlib.sha256()
    for p in parts:
        h.update(jdump(p).encode())
        h.update(b'|')
    return h.hexdigest()[:16]


# ----------------------------------------------------------------------------------------------
# cell values used by several properties: encode / decode between trace literals and objects
# ----------------------------------------------------------------------------------------------
def enc(v):
    """python cell value -> trace literal"""
    if isinstance(v, float):
        if math.isnan(v):
            return {'f': 'nan'}
        return {'f': repr(v)}
    if isinstance(v, _real_datetime.datetime):
        return {'dt': v.isoformat()}
    if isinstance(v, (list, tuple)):
        return {type(v).__name__: [enc(x) for x in v]}
    if isinstance(v, dict):
        return {'dict': [[enc(k), enc(x)] for k, x in v.items()]}
    return v


def dec(v):
    """trace literal -> python value"""
    if isinstance(v, dict):
        if 'f' in v:
            return float(v['f'])
        if 'dt' in v:
            return _real_datetime.datetime.fromisoformat(v['dt'])
        if 'list' in v:
            return [dec(x) for x in v['list']]
        if 'tuple' in v:
            return tuple(dec(x) for x in v['tuple'])
        if 'dict' in v:
            return {dec(k): dec(x) for k, x in v['dict']}
        raise ValueError('bad literal %r' % (v,))
    return v


def same(a, b):
    """type-strict, NaN-aware equality of two cell values (2 != 2.0, nan == nan)"""
    if type(a) is not type(b):
        return False
    if isinstance(a, float):
        if math.isnan(a) or math.isnan(b):
            return math.isnan(a) and math.isnan(b)
        return a == b
    if isinstance(a, (list, tuple)):
        return len(a) == len(b) and all(same(x, y) for x, y in zip(a, b))
    if isinstance(a, dict):
        return list(a.keys()) == list(b.keys()) and all(same(a[k], b[k]) for k in a)
    return a == b
