"""C20: perdictable evaluates f once per row of the keyed join of its inputs; rows whose previously
computed value is supplied with an expiry date in the past keep that value and f is not called.

World: the simulated wall clock (perdictable reads `today = dt(0)` inside every call), one
long-lived perdictable object reused for the whole run, a day loop in which yesterday's output is
fed back as today's `data`, a ledgered f.  Faults: clock_jump_fwd, clock_jump_back (frozen rows thaw),
clock_stall, state_loss (rows of the previous output withheld / previous output lost entirely),
inputs whose keys appear and disappear between days.
"""
import datetime
import itertools

from sim.core import Violation, Result, dec, enc
from sim.seams import SimClock

PROP = 'C20'
HASH_SENSITIVE = False
ORIGINS = ['2021-03-03T10:00:00', '2020-02-29T23:59:59.999999', '2022-01-01T00:00:00', '2021-12-31T12:00:00', '2023-06-15T09:30:00',
           '2024-02-28T00:00:00.000001', '2024-02-29T00:00:00', '2019-12-31T23:59:59', '2025-01-31T23:59:59.999999', '2022-03-27T01:30:00',
           '2022-10-30T01:30:00', '2023-04-30T00:00:00', '2021-07-04T12:00:00.500000', '2020-01-01T00:00:00.000001', '2026-06-30T18:45:10']
KEYPOOL_S = ['a', 'b', 'c', 'd', 'e', 'f']
KEYPOOL_I = [1, 2, 3, 4, 5, 6]
DAY = 86400


def _midnight(t):
    return datetime.datetime(t.year, t.month, t.day)


# ----------------------------------------------------------------------------------------------
# generation
# ----------------------------------------------------------------------------------------------
def generate(st):
    sw, g, f = st.swarm, st.gen, st.fault
    n_params = sw.choice([1, 2, 2, 3, 3, 4])
    names = ['x', 'y', 'z', 'w'][:n_params]
    params = []
    for i, nm in enumerate(names):
        p = {'name': nm}
        if i > 0 and sw.random() < 0.35:
            p['default'] = sw.choice([0, 7, None])
        params.append(p)
    # python requires defaults to be trailing
    seen = False
    for p in params:
        if 'default' in p:
            seen = True
        elif seen:
            p['default'] = 0
    # the trailing parameter(s) of f may be keyword-only (def f(x, *, y=7)): inputs are handed over by name anyway
    for p in params[max(1, n_params - sw.choice([0, 0, 0, 0, 1, 2])):]:
        p['kwonly'] = True
    two_keys = sw.random() < 0.3
    on = ['k1', 'k2'] if two_keys else ['k1']
    if two_keys and sw.random() < 0.5:
        on = ['k2', 'k1']
    explicit_defaults = None
    if sw.random() < 0.4:
        # a default is a value or (documented) a formula of the key columns
        explicit_defaults = {p['name']: sw.choice([0, -1, None, {'formula': on[0]}]) for p in params if sw.random() < 0.4}
    cfg = {
        'params': params, 'on': on, 'defaults': explicit_defaults,
        'if_none': sw.random() < 0.25, 'include_inputs': sw.random() < 0.15,
        'keys_int': sw.random() < 0.4,
        'n_days': sw.choice([1, 2, 3, 4, 5, 6, 8, 12] + ([20, 30] if getattr(st, 'deep', False) else [])),
        'faulty': sw.random() < 0.6,
        'origin': sw.choice(ORIGINS),
        'p_scalar': sw.choice([0.0, 0.2, 0.5, 1.0]) if n_params > 1 else sw.choice([0.0, 0.3]),
        'p_change': sw.choice([0.0, 0.3, 0.7]),
        'allow_unvalued_expired': sw.random() < 0.1,
        'use_expiry': sw.random() < 0.85,
        'dict_output': sw.random() < 0.25,
        'output_is_input': sw.choice([True, True, True, False]),
        'col': sw.choice(['data', 'data', 'data', 'out']),
        'on_as_list': sw.random() < 0.6,
        'if_none_as_list': sw.random() < 0.4,
        'bigkeys': sw.random() < 0.012,
        'none_values': sw.random() < 0.2,       # a table may hold None as a genuine value
    }
    if cfg['defaults'] is not None and sw.random() < 0.3:
        # a stated default for the expiry input: keys the expiry table lacks expire then (long ago / far in the future)
        cfg['defaults']['expiry'] = enc(datetime.datetime.fromisoformat(cfg['origin']) + datetime.timedelta(days=sw.choice([-1000, -1000, 5000])))
    # renames = {parameter: column}: which column of a wider table feeds the parameter (documented option)
    cfg['renames'] = {sw.choice(names): 'src'} if sw.random() < 0.15 else None
    cfg['wrap_f'] = sw.random() < 0.15
    cfg['inspect_first'] = sw.random() < 0.3
    cfg['reenter'] = sw.random() < 0.25        # f itself uses lifted functions / join while it is being evaluated
    if cfg['bigkeys']:
        cfg['keys_int'] = True
        cfg['n_days'] = min(cfg['n_days'], 3)
    pool = KEYPOOL_I if cfg['keys_int'] else KEYPOOL_S
    if not cfg['keys_int'] and sw.random() < 0.08:
        pool = [1, 'a', 2, 'b', 3, 'c']          # ids that are partly numbers, partly strings: no order between them, but a join all the same
        cfg['mixed_type_keys'] = True
    elif not cfg['keys_int'] and sw.random() < 0.25:
        pool = ['MSFT', 'aapl', 'IBM', 'goog', 'Bp', 'b']       # tickers in mixed case: string order is case sensitive
        cfg['mixed_case_keys'] = True

    def keyset(maxn=5):
        if cfg.get('bigkeys') and not two_keys:
            N = g.choice([70, 100, 140])
            if g.random() < 0.6:
                L = g.choice([31, 32, 33, 63, 64, 64, 65])
                a0 = g.randrange(0, N - L)
                return [[k] for k in range(N) if not (a0 <= k < a0 + L)]
            return [[k] for k in range(N)]
        if two_keys:
            n = g.choice([0, 1, 2, 3, 4, 6])
            allk = [[a, b] for a in pool[:3] for b in pool[3:6]]
            g.shuffle(allk)
            return allk[:n]
        n = g.choice([0, 1, 2, 3, 3, 4, 5])
        ks = list(pool)
        g.shuffle(ks)
        return [[k] for k in ks[:n]]

    def make_input(nm):
        if g.random() < cfg['p_scalar']:
            return {'kind': 'scalar', 'v': g.choice([1, 2, 3, 10, 10, [7, 8], [5], [1, 2, 3]])}
        ks = keyset()
        kc = list(on)
        if two_keys and nm == names[0] and nm not in (explicit_defaults or {}) and not any('default' in q for q in params if q['name'] == nm) and g.random() < 0.3 and n_params > 1:
            # this (never defaulted) input is keyed by ONE of the two key columns only: it joins on that column alone
            kc = [g.choice(on)]
            seen_ = []
            for k_ in ks:
                v_ = k_[on.index(kc[0])]
                if [v_] not in seen_:
                    seen_.append([v_])
            ks = seen_
            return {'kind': 'table', 'keys': ks, 'vals': g.sample([1, 2, 3, 4, 5, 10, 20, 30, 40], len(ks)),
                    'col': g.choice([nm, nm, 'val']), 'keycols': kc}
        # values are distinct within a table, so no two rows of one call present f with the same arguments
        # and the ledger attributes every evaluation to one row
        if len(ks) > 9:
            vals_ = list(range(100, 100 + len(ks)))
            g.shuffle(vals_)
        else:
            vals_ = g.sample([1, 2, 3, 4, 5, 10, 20, 30, 40], len(ks))
        if cfg.get('none_values') and vals_ and g.random() < 0.5:
            vals_[g.randrange(len(vals_))] = None         # at most one None per table keeps the rows' arguments distinct
        return {'kind': 'table', 'keys': ks, 'vals': vals_,
                'col': g.choice([nm, nm, 'data', 'val']), 'keycols': list(on)}

    inputs = {nm: make_input(nm) for nm in names}
    # occasionally one no-default table input carries only one of two key columns (cross join on the other)
    now = datetime.datetime.fromisoformat(cfg['origin'])
    ops = []
    prev_keys = []
    for day in range(cfg['n_days']):
        # --- time passes
        if day > 0:
            r = f.random() if cfg['faulty'] else 1.0
            if r < 0.12:
                d = -g.choice([1, 3, 40]) * DAY
            elif r < 0.2:
                d = 0
            elif r < 0.3:
                d = g.choice([35, 400]) * DAY
            else:
                d = g.choice([3600, 7 * 3600, DAY, DAY, 2 * DAY, DAY + 1, 5 * DAY])
            ops.append({'op': 'advance', 's': d})
            now = now + datetime.timedelta(seconds=d)
        # --- inputs may change
        if day > 0 and g.random() < cfg['p_change']:
            nm = g.choice(names)
            inputs = dict(inputs)
            inputs[nm] = make_input(nm)
        elif day > 0 and cfg.get('renames') and g.random() < 0.6:
            # the caller refreshes the values of its (long-lived) wide table in place: same keys, new numbers
            nm = list(cfg['renames'])[0]
            if inputs[nm]['kind'] == 'table' and inputs[nm]['keys']:
                inputs = dict(inputs)
                nv = [v + 100 if isinstance(v, int) else v for v in inputs[nm]['vals']]
                inputs[nm] = dict(inputs[nm], vals=nv, refreshed=True)
        # --- expiry for today's call, relative to the generator's copy of the clock
        today = _midnight(now)
        cand = []
        for inp in inputs.values():
            if inp['kind'] == 'table':
                for k in inp['keys']:
                    if k not in cand:
                        cand.append(k)
        for k in prev_keys:
            if k not in cand:
                cand.append(k)
        expiry = None
        if cfg['use_expiry'] and cand and g.random() < 0.85:
            rows = []
            for k in cand:
                c = g.choice(['absent', 'none', 'past', 'past', 'future', 'future', 'today'])
                if c == 'absent':
                    continue
                if c == 'none':
                    e = None
                elif c == 'past':
                    e = today - datetime.timedelta(days=g.choice([1, 1, 2, 3, 30])) + datetime.timedelta(seconds=g.choice([0, 0, 3600, 43200, 86399]))
                    if e >= today:
                        e = today - datetime.timedelta(seconds=1)
                elif c == 'future':
                    e = today + datetime.timedelta(days=g.choice([2, 3, 30]), seconds=g.choice([0, 0, 3600]))
                else:
                    e = today + datetime.timedelta(seconds=g.choice([0, 0, 12 * 3600, DAY - 1]))
                rows.append([k, enc(e) if e is not None else None])
            if g.random() < 0.1:
                rows.append([[pool[5]] * len(on), enc(today - datetime.timedelta(days=5))])   # a key no input has
            expiry = {'rows': rows, 'col': g.choice(['expiry', 'data', 'until'])}
        elif cfg['use_expiry'] and g.random() < 0.15:
            # a scalar expiry applies to every row
            c = g.choice(['past', 'future'])
            e = today + datetime.timedelta(days=-3 if c == 'past' else 3)
            expiry = {'scalar': enc(e)}
        # --- what the caller passes as previously computed data
        data = 'prev' if day > 0 else g.choice(['omit', 'omit', 'none'])
        loss = []
        if day > 0 and cfg['faulty']:
            r = f.random()
            if r < 0.15:
                data = f.choice(['omit', 'none'])
            elif r < 0.45 and prev_keys:
                loss = [k for k in prev_keys if f.random() < 0.4]
        todays = dict(inputs)
        for q in params:
            if 'default' in q and q['name'] in todays and len(todays) > 1 and g.random() < 0.15:
                del todays[q['name']]          # the caller relies on the parameter's own default today
        op_ = {'op': 'call', 'inputs': todays, 'expiry': expiry, 'data': data, 'loss': loss, 'also_join': g.random() < 0.3,
               'scalar_feedback': g.random() < 0.4}
        if cfg.get('reenter') and g.random() < 0.5:
            op_['reenter'] = True
            op_['reenter_at'] = g.choice([1, 1, 2, 3])
        if cfg['faulty'] and cfg['dict_output'] and f.random() < 0.2:
            op_['loss_aux'] = True
        if cfg['faulty'] and f.random() < 0.08:
            op_['raise_at'] = f.choice([1, 1, 2, 3])
            op_['exc'] = f.choice(['sim', 'sim', 'stop', 'key'])      # StopIteration is an exception too (next() on an exhausted iterator)
        ops.append(op_)
        # the generator cannot know the join result without the model; approximate prev_keys by all table keys
        prev_keys = cand
    return {'prop': PROP, 'cfg': cfg, 'ops': ops}


# ----------------------------------------------------------------------------------------------
# reference model of the keyed join
# ----------------------------------------------------------------------------------------------
def _dflt(d, kd):
    if isinstance(d, dict) and 'formula' in d:
        return ('D', kd.get(d['formula']))
    return d


def model_join(on, inputs, defaults, allow_partial=False):
    """inputs: name -> ('scalar', v) | ('table', keycols, {keytuple: value});
    returns None when the call has no table input, else (keycols_present, list of (keydict, values dict))"""
    tables = {k: v for k, v in inputs.items() if v[0] == 'table'}
    scalars = {k: v[1] for k, v in inputs.items() if v[0] == 'scalar'}
    if not tables:
        return None
    nodef = [(k, v) for k, v in tables.items() if k not in defaults]
    withdef = [(k, v) for k, v in tables.items() if k in defaults]

    def rows_of(t):
        _, keycols, mapping = t
        return [dict(zip(keycols, kt)) for kt in mapping]

    def lookup(t, keyd):
        _, keycols, mapping = t
        kt = tuple(keyd.get(c) for c in keycols)
        return kt in mapping, mapping.get(kt)

    if nodef:
        covered = set()
        for name, t in nodef:
            covered |= set(t[1])
        if not all(c in covered for c in on):
            # the inner-joined inputs leave a key column undetermined.  One case is still well defined: a single outer-joined
            # input that has every key column (and no data/expiry table in the call): a left outer join on the shared columns,
            # an unmatched key keeps None in the column it cannot know and takes the default
            if not (allow_partial and len(withdef) == 1 and all(c in withdef[0][1][1] for c in on)):
                return 'AMBIGUOUS'
            if isinstance(defaults[withdef[0][0]], dict):
                return 'AMBIGUOUS'       # a formula of a key column the unmatched rows do not have: not defined
            rel = None
            for name, t in nodef:
                r = rows_of(t)
                if rel is None:
                    rel = r
                else:
                    rel = [dict(a, **b) for a in rel for b in r if all(a[c] == b[c] for c in a if c in b)]
            dname, dt_ = withdef[0]
            out = []
            for kd in rel:
                vals = dict(scalars)
                for name, t in nodef:
                    vals[name] = lookup(t, kd)[1]
                matches = [r for r in rows_of(dt_) if all(r[c] == kd[c] for c in kd)]
                if matches:
                    for r in matches:
                        v2 = dict(vals)
                        v2[dname] = lookup(dt_, r)[1]
                        out.append((dict(r), v2))
                else:
                    kd2 = {c: kd.get(c) for c in on}
                    v2 = dict(vals)
                    v2[dname] = _dflt(defaults[dname], kd2)
                    out.append((kd2, v2))
            return out
        # natural join of the key relations
        rel = None
        for name, t in nodef:
            r = rows_of(t)
            if rel is None:
                rel = r
            else:
                out = []
                for a in rel:
                    for b in r:
                        common = [c for c in a if c in b]
                        if all(a[c] == b[c] for c in common):
                            m = dict(a)
                            m.update(b)
                            out.append(m)
                rel = out
        keyrows = rel
    else:
        keyrows = []
        for name, t in withdef:
            for r in rows_of(t):
                if r not in keyrows:
                    keyrows.append(r)
    # drop duplicates (cannot arise from unique-key tables, kept for safety)
    out = []
    for kd in keyrows:
        vals = dict(scalars)
        ok = True
        for name, t in nodef:
            has, v = lookup(t, kd)
            if not has:
                ok = False
            vals[name] = v
        for name, t in withdef:
            if not all(c in kd for c in t[1]):
                ok = None
            has, v = lookup(t, kd)
            vals[name] = v if has else _dflt(defaults[name], kd)
        if ok:
            out.append((kd, vals))
    return out


# ----------------------------------------------------------------------------------------------
# execution
# ----------------------------------------------------------------------------------------------
class SimFError(Exception):
    pass


HOOK = {'fn': None, 'depth': 0, 'seen': 0, 'at': 1}      # what f does, while it is being evaluated for a row, with the library


def _make_f(params, ledger, dict_output=False, arm=None):
    """a real def with the drawn signature; records every call; the value carries the call number so a kept
    value can be told from a recomputed one"""
    part = lambda p: p['name'] if 'default' not in p else '%s=%r' % (p['name'], p['default'])
    pos_, kwo_ = [part(p) for p in params if not p.get('kwonly')], [part(p) for p in params if p.get('kwonly')]
    sig = ', '.join(pos_ + (['*'] + kwo_ if kwo_ else []))
    body = ', '.join("'%s': %s" % (p['name'], p['name']) for p in params)
    src = ("def f(%s):\n"
           "    args = {%s}\n"
           "    if hook['depth']: return 'inner:' + '|'.join('%%s=%%r' %% (k, args[k]) for k in sorted(args))\n"
           "    hook['seen'] += 1\n"
           "    if hook['fn'] is not None and hook['seen'] == hook['at']:\n"
           "        fn_, hook['fn'], hook['depth'] = hook['fn'], None, 1\n"
           "        try: fn_()\n"
           "        finally: hook['depth'] = 0\n"
           "    ledger.append(dict(args))\n"
           "    if arm and arm[0] == len(ledger): raise (StopIteration() if len(arm) > 1 and arm[1] == 'stop' else KeyError('injected') if len(arm) > 1 and arm[1] == 'key' else SimFError('injected at evaluation %%d' %% len(ledger)))\n"
           "    return 'v#%%d:%%s' %% (len(ledger), '|'.join('%%s=%%r' %% (k, args[k]) for k in sorted(args)))\n") % (sig, body)
    ns = {'ledger': ledger, 'arm': arm, 'SimFError': SimFError, 'hook': HOOK}
    exec(src, ns)
    f = ns['f']
    if not dict_output:
        return f
    # a function with an `output` attribute returns a dict with those keys; both values come from ONE evaluation
    src2 = ("def f2(%s):\n"
            "    v = f(%s)\n"
            "    return {'data': v, 'aux': 'A' + v}\n") % (sig, ', '.join('%s=%s' % (p['name'], p['name']) for p in params))
    ns2 = {'f': f}
    exec(src2, ns2)
    f2 = ns2['f2']
    f2.output = ['data', 'aux']
    return f2


def execute(trace, ctx=None):
    from pyg_base import dictable, perdictable
    res = Result()
    cfg = trace['cfg']
    on = list(cfg['on'])
    params = cfg['params']
    names = [p['name'] for p in params]
    SimClock.reset(datetime.datetime.fromisoformat(cfg['origin']))
    ledger = []
    dict_mode = bool(cfg.get('dict_output'))
    col = 'data' if dict_mode else cfg.get('col', 'data')      # name of the output column and of the keyword carrying previous output
    arm = []               # [n]: the n-th evaluation of f (counted over the whole run) raises
    f = _make_f(params, ledger, dict_mode, arm)
    kwargs = {'on': list(on) if (len(on) > 1 or cfg.get('on_as_list', True)) else on[0]}       # a single key may be given as a plain string
    formula_bad = []

    def real_default(d):
        if isinstance(d, dict) and 'dt' in d:
            return dec(d)
        if not (isinstance(d, dict) and 'formula' in d):
            return d

        def body(v):
            if cfg.get('reenter'):
                # the formula looks something up with a join of its own, on another key
                from pyg_base import join as _j
                r_ = _j({'u': dictable({'qq': ['b', 'a'], 'u': [1, 2]}), 'w': 5}, on='qq')
                if [dict(x) for x in r_] != [{'qq': 'a', 'u': 2, 'w': 5}, {'qq': 'b', 'u': 1, 'w': 5}]:
                    formula_bad.append([dict(x) for x in r_])
            return ('D', v)
        return eval('lambda %s: body(%s)' % (d['formula'], d['formula']), {'body': body})
    if cfg.get('defaults') is not None:
        kwargs['defaults'] = {kk: real_default(vv) for kk, vv in cfg['defaults'].items()}
    if cfg.get('if_none'):
        # the documented forms: True, or the list of output columns concerned
        kwargs['if_none'] = True if not cfg.get('if_none_as_list') else (['data', 'aux'] if cfg.get('dict_output') else [cfg.get('col', 'data')])
    if cfg.get('include_inputs'):
        kwargs['include_inputs'] = True
    if cfg.get('output_is_input', True) is False:
        kwargs['output_is_input'] = False       # f is not shown its own previous output (ours never asks for it)
    if col != 'data':
        kwargs['col'] = col
    renames = cfg.get('renames') or {}
    if renames:
        kwargs['renames'] = dict(renames)
    held = {}              # parameter -> (signature, the caller's long-lived wide table)
    f_lifted = f
    if cfg.get('wrap_f') and not dict_mode:
        # the function handed over is itself one of the library's wrappers around f (same signature, same behaviour)
        from pyg_base import kwargs_support
        f_lifted = kwargs_support(f)
        res.probe('lifted-function-is-a-library-wrapper')
    p = perdictable(f_lifted, **kwargs)
    if cfg.get('inspect_first'):
        # somebody looks at the lifted function's signature before it is ever called
        from pyg_base import getargspec as _gas
        try:
            _gas(p)
            getattr(p, 'fullargspec', None)
        except Exception as e:
            res.violation = {'cls': 'unexpected-exception', 'msg': 'getargspec(lifted function) raised %s: %s' % (type(e).__name__, e), 'step': 0}
            return res
        res.probe('signature-inspected-before-first-call')
    # join defaults as the library documents them: explicit `defaults`, else f's own parameter defaults
    if cfg.get('defaults') is not None:
        jdefaults = dict(cfg['defaults'])
    else:
        jdefaults = {q['name']: q['default'] for q in params if 'default' in q}
    dflt_e = dec(cfg['defaults']['expiry']) if (cfg.get('defaults') or {}).get('expiry') is not None else None
    prev = None            # model of the previous output: {keytuple(on order): value}
    prev_table = None      # the real previous output
    state = {'step': 0}

    def lib(fn, what):
        try:
            return fn()
        except Exception as e:
            raise Violation('unexpected-exception', '%s raised %s: %s' % (what, type(e).__name__, str(e)[:300]), state['step'])

    def table(keycols, keys, colname, vals):
        cols = {c: [k[i] for k in keys] for i, c in enumerate(keycols)}
        cols[colname] = list(vals)
        return dictable(cols)      # not dictable(**cols): `data` is also the name of the constructor's first parameter

    try:
        for k, op in enumerate(trace['ops']):
            state['step'] = k
            if op['op'] == 'advance':
                s = op['s']
                if s < 0:
                    res.fault('clock_jump_back')
                elif s == 0:
                    res.fault('clock_stall')
                elif s >= 35 * DAY:
                    res.fault('clock_jump_fwd')
                SimClock.advance(datetime.timedelta(seconds=s))
                continue
            today = _midnight(SimClock.now)
            if SimClock.now == today or (SimClock.now - today) >= datetime.timedelta(seconds=DAY - 1):
                res.probe('clock-at-midnight-edge')
            # ---- build the real arguments and the model's view of them
            call = {}
            minputs = {}
            for nm in names:
                inp = op['inputs'].get(nm)
                if inp is None:
                    continue
                if inp['kind'] == 'scalar':
                    call[nm] = inp['v']
                    minputs[nm] = ('scalar', inp['v'])
                else:
                    keycols = [c for c in inp.get('keycols', on) if c in on] or list(on)
                    keys = [kk[:len(keycols)] for kk in inp['keys']]
                    if len(keycols) < len(on):
                        res.probe('input-keyed-by-a-subset-of-the-keys')
                    uniq = []
                    vals = []
                    for kk, v in zip(keys, inp['vals']):
                        if kk not in uniq:
                            uniq.append(kk); vals.append(v)
                    cname = inp['col'] if inp['col'] not in on else nm
                    if nm in renames:
                        # a wide table of which the column named in `renames` is the one to use; the caller keeps the object and
                        # refreshes that column in place from day to day
                        sig = (tuple(keycols), tuple(tuple(kk) for kk in uniq))
                        if nm in held and held[nm][0] == sig:
                            call[nm] = held[nm][1]
                            call[nm][renames[nm]] = list(vals)
                            res.probe('wide-table-refreshed-in-place')
                        else:
                            call[nm] = table(keycols, uniq, renames[nm], vals)
                            call[nm]['alt'] = [-5555 - j for j in range(len(uniq))]
                            held[nm] = (sig, call[nm])
                        res.probe('input-column-chosen-by-renames')
                        minputs[nm] = ('table', keycols, {tuple(kk): v for kk, v in zip(uniq, vals)})
                        continue
                    call[nm] = table(keycols, uniq, cname, vals)
                    if cname == nm and (k + len(uniq)) % 4 == 0:
                        # a wider table: besides the keys and the column of the parameter's own name (which is the one to use)
                        # it carries other columns, one of them called `data` like the output of an earlier calculation
                        for extra in ('data', 'zzz'):
                            if extra not in on and extra != nm:
                                call[nm][extra] = [-7777 - j for j in range(len(uniq))]
                        res.probe('input-table-with-extra-columns')
                    minputs[nm] = ('table', keycols, {tuple(kk): v for kk, v in zip(uniq, vals)})
            if not call:
                continue
            missing = [q['name'] for q in params if q['name'] not in call and 'default' not in q]
            if missing:
                continue
            has_table = any(v[0] == 'table' for v in minputs.values())
            aux_tables = bool(op.get('expiry') and 'rows' in (op.get('expiry') or {})) or (op.get('data') == 'prev' and prev_table is not None and prev is not None)
            mrows = model_join(on, minputs, {kk: vv for kk, vv in jdefaults.items() if kk in minputs}, allow_partial=not aux_tables)
            partial = isinstance(mrows, list) and any(kd.get(c) is None for kd, _ in mrows for c in on)
            if partial:
                res.probe('unmatched-key-keeps-None-in-a-key-column')
            if any(v[0] == 'table' and len(v[1]) < len(on) and nm in jdefaults for nm, v in minputs.items()):
                res.stat('skipped-undetermined-key-column')
                continue        # an outer-joined input that lacks a key column: what its default row should look like is undefined
            if mrows == 'AMBIGUOUS' or (mrows is not None and any(not all(c in kd for c in on) for kd, _ in mrows)) or (partial and cfg.get('include_inputs')):
                res.stat('skipped-undetermined-key-column')
                continue        # a key column no inner-joined table provides: outside what is generated
            # ---- the join itself, called directly (the statement names join(inputs, on, defaults) explicitly)
            if op.get('also_join') and has_table:
                from pyg_base import join as _join
                jin = {nm: (call[nm].copy() if is_dictable_like(call[nm]) else call[nm]) for nm in call}
                jd = {kk: real_default(vv) for kk, vv in jdefaults.items()}
                jkw = {'renames': dict(renames)} if renames else {}
                jt = lib(lambda: _join(jin, on=list(on), defaults=dict(jd), **jkw), 'join(%s)' % sorted(jin))
                res.probe('join-called-directly')
                if mrows is not None:
                    if not is_dictable_like(jt):
                        raise Violation('join-keys', 'join returned %s' % type(jt).__name__, k)
                    jrows = list(jt)
                    if not mrows:
                        if len(jrows):
                            raise Violation('join-keys', 'join of inputs without a common key returned %d rows' % len(jrows), k)
                    else:
                        jk = [tuple(r[c] for c in on) for r in jrows]
                        ek = [tuple(kd[c] for c in on) for kd, _ in mrows]
                        if sorted(jk, key=repr) != sorted(ek, key=repr):
                            raise Violation('join-keys', 'join rows %s, expected keys %s' % (jk, ek), k)
                        if not partial and not cfg.get('mixed_type_keys') and jk not in [sorted(jk, key=lambda t: tuple(t[on.index(c)] for c in perm)) for perm in (list(on), sorted(on))]:
                            raise Violation('not-sorted', 'join rows are not sorted by key: %s' % jk, k)
                        want = {tuple(kd[c] for c in on): vals for kd, vals in mrows}
                        for r, kt in zip(jrows, jk):
                            for nm in call:
                                if r.get(nm, '<absent>') != want[kt].get(nm, '<absent>'):
                                    raise Violation('join-values', 'join row %s has %s=%r, expected %r' % (kt, nm, r.get(nm, '<absent>'), want[kt].get(nm)), k)
                # join must not alter its inputs
                for nm in call:
                    if not is_dictable_like(call[nm]):
                        continue
                    now_ = dict(jin[nm])
                    was_ = dict(call[nm])
                    if nm in renames:
                        # selecting a column through `renames` leaves a working column named after the parameter in the table
                        # handed over (the library's way of doing it, and nothing the statement forbids); all else must be as it was
                        now_.pop(nm, None)
                        was_.pop(nm, None)
                    if now_ != was_:
                        raise Violation('join-altered-input', 'join changed its input table %s' % nm, k)
            # ---- previously computed data
            supplied = {}
            data_keys = []
            data_mode = op.get('data', 'omit')
            if has_table and data_mode == 'prev' and prev_table is not None and prev is not None:
                loss = [tuple(x) for x in op.get('loss', [])]
                keep = [kt for kt in prev if kt not in loss]
                if len(keep) < len(prev):
                    res.fault('state_loss')
                supplied = {kt: prev[kt] for kt in keep}
                data_keys = list(keep)
                call[col] = table(on, [list(kt) for kt in keep], col, [prev[kt] for kt in keep])
                if dict_mode and op.get('loss_aux'):
                    # only ONE of the two previous outputs survived: no row has a complete previous value any more
                    res.fault('state_loss')
                    res.probe('one-of-two-previous-outputs-lost')
                    supplied = {}
                elif dict_mode:
                    call['aux'] = table(on, [list(kt) for kt in keep], 'aux', ['A' + prev[kt] if isinstance(prev[kt], str) else prev[kt] for kt in keep])
            elif has_table and data_mode == 'none':
                call[col] = None
                if dict_mode:
                    call['aux'] = None
                if prev:
                    res.fault('state_loss')
            elif has_table and data_mode in ('prev', 'omit') and prev:
                res.fault('state_loss')
            # ---- expiry
            exp_map = {}
            exp_scalar = None
            allow = bool(cfg.get('allow_unvalued_expired'))
            row_keys = [tuple(kd[c] for c in on) for kd, _ in (mrows or [])]
            if has_table and op.get('expiry'):
                e = op['expiry']
                if 'scalar' in e:
                    exp_scalar = dec(e['scalar'])
                    if not allow and exp_scalar <= SimClock.now and any(kt not in supplied for kt in row_keys):
                        exp_scalar = None       # see below
                        res.stat('expiry-withheld(known finding not provoked)')
                    else:
                        call['expiry'] = exp_scalar
                else:
                    rows = [(tuple(kk[:len(on)]), dec(v) if v is not None else None) for kk, v in e['rows'] if len(kk) >= len(on)]
                    seen = {}
                    for kk, v in rows:
                        # a past expiry for a key without a previous value provokes the recorded finding
                        # (expired-row-without-previous-value-not-computed); only a tenth of the runs do that on purpose
                        if not allow and v is not None and v <= SimClock.now and kk not in supplied and not cfg.get('if_none'):
                            res.stat('expiry-withheld(known finding not provoked)')
                            continue
                        seen.setdefault(kk, v)
                    if seen and dflt_e is not None and dflt_e <= SimClock.now and not allow and not cfg.get('if_none') and any(kt not in seen and kt not in supplied for kt in row_keys):
                        seen = {}       # the default expiry (past) would fall on a key without a previous value: the recorded finding, not provoked
                        res.stat('expiry-withheld(known finding not provoked)')
                    if seen:
                        call['expiry'] = table(on, [list(kk) for kk in seen], e['col'], list(seen.values()))
                        exp_map = seen
                        if dflt_e is not None and any(kt not in seen for kt in row_keys):
                            res.probe('default-expiry-applies-to-keys-the-expiry-table-lacks')
            # when every table input is outer-joined, keys found only in data/expiry would extend the key set; the
            # statement does not say whether they should, so such calls are not made
            if mrows is not None and not any(v[0] == 'table' and nm not in jdefaults for nm, v in minputs.items()):
                present = {tuple(kd[c] for c in on) for kd, _ in mrows}
                if any(kt not in present for kt in list(data_keys) + list(exp_map)):
                    res.stat('skipped-ambiguous-key-set')
                    continue
            if not has_table and op.get('scalar_feedback'):
                # all inputs scalar, a previous (scalar) output fed back with an expiry long past: still f(...) itself
                call[col] = 'v#0:stale'
                call['expiry'] = today - datetime.timedelta(days=400)
                if dict_mode:
                    call['aux'] = 'Av#0:stale'
                res.probe('scalar-call-with-previous-output')
            # ---- the call
            before = len(ledger)
            if op.get('raise_at') and has_table and mrows:
                # fault: f raises at its k-th evaluation within this call.  The statement says nothing about a failing f, so
                # whatever the call does is accepted; what is checked is that the long-lived object still behaves on later days
                arm[:] = [before + int(op['raise_at']), op.get('exc', 'sim')]
                returned = False
                try:
                    out_f = p(**call)
                    returned = True
                except Exception:
                    pass
                fired = len(ledger) >= arm[0]
                failing_args = ledger[arm[0] - 1] if fired else None
                arm[:] = []
                if fired:
                    res.fault('f_raises_mid_call')
                    if returned and is_dictable_like(out_f) and mrows:
                        # the failure was swallowed.  Nothing says it must not be - but then every OTHER row must still hold
                        # f of its own inputs (or its kept value), not some other row's value
                        res.probe('failure-swallowed')
                        byk = {tuple(r[c] for c in on): r for r in out_f if all(c in r for c in on)}
                        for kd, vals in mrows:
                            kt = tuple(kd[c] for c in on)
                            args = {q['name']: vals.get(q['name'], q.get('default')) for q in params}
                            if args == failing_args or kt not in byk or col not in byk[kt]:
                                continue
                            gotv = byk[kt][col]
                            e_ = exp_map.get(kt, dflt_e if (exp_map and dflt_e is not None) else exp_scalar)
                            if e_ is not None and e_ < today and kt in supplied and gotv != supplied[kt]:
                                raise Violation('frozen-row-changed', 'key %s: f failed on another row and the failure was swallowed; this row had a previous value %r with expiry %s < today and now holds %r'
                                                % (kt, supplied[kt], e_, gotv), k)
                            if isinstance(gotv, str) and gotv.startswith('v#') and gotv.split(':', 1)[1] != _fmt_args(args) and gotv != supplied.get(kt):
                                raise Violation('row-value', 'key %s: after f failed on another row the result holds %r, which is f of other inputs (expected f(%s))'
                                                % (kt, gotv, _fmt_args(args)), k)
                    continue
                # fewer rows were evaluated than raise_at: the call completed normally but its result was discarded; the
                # evaluations are gone from the ledger's point of view
                continue
            HOOK.update(fn=None, depth=0, seen=0, at=int(op.get('reenter_at') or 1))
            rebox = {}
            if op.get('reenter') and has_table:
                def reenter_():
                    # f looks something up through the library while it is being evaluated for one row: the SAME lifted function
                    # on tables of its own, another lifted function, and a join on another key
                    ks_ = [['zz1', 'zz2', 'zz3'][:len(on)], ['zy1', 'zy2', 'zy3'][:len(on)], ['zx1', 'zx2', 'zx3'][:len(on)]]
                    ins_ = {}
                    for j_, q in enumerate(params):
                        ins_[q['name']] = table(list(on), ks_, renames.get(q['name'], q['name']), [900 + 10 * j_ + i_ for i_ in range(3)])
                    r_ = p(**ins_)
                    if dict_mode and isinstance(r_, dict) and not is_dictable_like(r_):
                        r_ = r_.get('data')        # one table per output of f
                    want_ = ['inner:' + '|'.join('%s=%r' % (q['name'], 900 + 10 * j_ + i_) for j_, q in sorted(enumerate(params), key=lambda e: e[1]['name'])) for i_ in (2, 1, 0)]
                    gotv_ = [(r[col]['data'] if isinstance(r[col], dict) else r[col]) if col in r else r.get('data') for r in r_] if is_dictable_like(r_) else r_
                    if not is_dictable_like(r_) or len(r_) != 3 or [r[on[0]] for r in r_] != ['zx1', 'zy1', 'zz1'] or gotv_ != want_:
                        rebox['bad'] = 'the same lifted function, called by f for tables of its own, returned %r (expected keys zx1, zy1, zz1 with %r)' % (
                            [dict(r) for r in r_] if is_dictable_like(r_) else r_, want_)
                    other_ = perdictable(lambda u, w=2: ('o', u, w), on=on[0])
                    r2_ = other_(u=table([on[0]], [['b2'], ['a2']], 'u', [7, 8]))
                    if not is_dictable_like(r2_) or [dict(r) for r in r2_] != [{on[0]: 'a2', 'data': ('o', 8, 2)}, {on[0]: 'b2', 'data': ('o', 7, 2)}]:
                        rebox['bad'] = 'another lifted function, called from inside f, returned %r' % ([dict(r) for r in r2_] if is_dictable_like(r2_) else r2_,)
                HOOK['fn'] = reenter_
            try:
                out = lib(lambda: p(**call), 'perdictable call %s' % sorted(call))
            finally:
                fired_ = op.get('reenter') and has_table and HOOK['fn'] is None
                HOOK.update(fn=None, depth=0)
            if rebox.get('bad'):
                raise Violation('reentrant-call', rebox['bad'], k)
            if formula_bad:
                raise Violation('reentrant-call', 'a join made by a default formula while the outer join was being assembled returned %r' % (formula_bad[0],), k)
            if fired_:
                res.probe('f-reenters-the-library')
            calls = ledger[before:]
            res.stat('calls')
            # ---- all-scalar call: returns f(...) itself
            if not has_table:
                res.probe('scalar-only-call')
                if len(calls) != 1:
                    raise Violation('scalar-call-count', 'all-scalar call evaluated f %d times' % len(calls), k)
                exp_args = {q['name']: call.get(q['name'], q.get('default')) for q in params}
                if dict_mode and isinstance(out, dict) and sorted(out) == ['aux', 'data'] and out['aux'] == 'A' + str(out['data']):
                    out = out['data']
                if calls[0] != exp_args or not isinstance(out, str) or not out.startswith('v#%d:' % len(ledger)):
                    raise Violation('scalar-call-result', 'all-scalar call returned %r after calling f with %r (expected args %r)' % (out, calls[0], exp_args), k)
                continue
            # ---- keyed call
            if not mrows:
                res.probe('empty-join')
                if calls:
                    raise Violation('empty-join-called-f', 'the join has no row but f was called %d times' % len(calls), k)
                prev, prev_table = {}, None
                continue
            if dict_mode:
                res.probe('dict-output-call')
                if not isinstance(out, dict) or sorted(out.keys()) != ['aux', 'data'] or not all(is_dictable_like(v) for v in out.values()):
                    raise Violation('result-shape', 'keyed call of a dict-output function returned %r' % (type(out).__name__,), k)
                ka = [tuple(r[c] for c in on) for r in out['aux']]
                kb = [tuple(r[c] for c in on) for r in out['data']]
                if ka != kb:
                    raise Violation('result-shape', 'the output tables disagree on their keys: %s vs %s' % (kb, ka), k)
                for ra, rb in zip(out['aux'], out['data']):
                    a, b = ra['aux'], rb['data']
                    if not ((a is None and b is None) or (isinstance(b, str) and a == 'A' + b)):
                        raise Violation('outputs-from-different-evaluations', 'key %s: data=%r aux=%r do not come from one evaluation of f'
                                        % (tuple(rb[c] for c in on), b, a), k)
                out = out['data']
            if not is_dictable_like(out):
                raise Violation('result-shape', 'keyed call returned %s instead of a table' % type(out).__name__, k)
            got_rows = list(out)
            if sorted(c for c in out.keys() if c in on) != sorted(on) or col not in out.keys():
                raise Violation('result-shape', 'result columns %s lack the keys %s or the value column' % (list(out.keys()), on), k)
            got_keys = [tuple(r[c] for c in on) for r in got_rows]
            exp_keys = [tuple(kd[c] for c in on) for kd, _ in mrows]
            if sorted(got_keys, key=repr) != sorted(exp_keys, key=repr):
                extra = [x for x in got_keys if x not in exp_keys]
                miss = [x for x in exp_keys if x not in got_keys]
                if len(got_keys) != len(set(got_keys)):
                    raise Violation('duplicate-rows', 'result has duplicate keys %s' % got_keys, k)
                raise Violation('join-keys', 'rows for keys %s: unexpected %s, missing %s' % (got_keys, extra, miss), k)
            # sorted by key: either lexicographic order of the key columns is accepted
            unordered = bool(cfg.get('mixed_type_keys'))      # numbers and strings among the keys: "sorted" means nothing the statement fixes
            orders = [] if (partial or unordered) else [sorted(got_keys, key=lambda t: tuple(t[on.index(c)] for c in perm)) for perm in (list(on), sorted(on))]     # by the keys in their given order; the library's alphabetical column order is accepted too
            if not partial and not unordered and got_keys not in orders:
                raise Violation('not-sorted', 'rows are not sorted by key: %s' % got_keys, k)
            if len(jdefaults) and any(nm in jdefaults and v[0] == 'table' for nm, v in minputs.items()):
                res.probe('default-extends-or-fills')
            # ---- per row: frozen or computed exactly once
            byrow = dict(zip(got_keys, got_rows))
            used = [False] * len(calls)
            newprev = {}
            klass = []
            for kd, vals in mrows:
                kt = tuple(kd[c] for c in on)
                got = byrow[kt][col]
                args = {q['name']: vals.get(q['name'], q.get('default')) for q in params}
                e = exp_map.get(kt, dflt_e if (exp_map and dflt_e is not None) else exp_scalar)
                if e is None:
                    ec = 'none'
                elif e < today:
                    ec = 'past'
                elif e > SimClock.now:
                    ec = 'future'         # not yet reached, whatever its date
                else:
                    ec = 'today'          # today's date, at or before the current time: "in the past" or not is a matter of reading
                has_prev = kt in supplied
                klass.append('%s%d' % (ec[0], int(has_prev)))
                idx = [j for j, c in enumerate(calls) if c == args and not used[j]]
                n_calls_for_row = len([c for c in calls if c == args])
                n_rows_same_args = sum(1 for _, v2 in mrows if {q['name']: v2.get(q['name'], q.get('default')) for q in params} == args)

                def computed_ok():
                    return isinstance(got, str) and got.startswith('v#') and got.split(':', 1)[1] == _fmt_args(args) \
                        and int(got[2:].split(':')[0]) > before

                def kept_ok():
                    return has_prev and got == supplied[kt]

                if ec == 'past' and has_prev:
                    res.probe('row-frozen')
                    if not kept_ok():
                        raise Violation('frozen-row-changed', 'key %s: previous value %r supplied with expiry %s < today %s, but the result holds %r'
                                        % (kt, supplied[kt], e, today, got), k)
                    expect_calls = 0
                elif ec == 'past' and not has_prev:
                    # no previous value supplied: the statement says such a row is computed exactly once
                    if got is None and (not idx or n_calls_for_row < n_rows_same_args) and not cfg.get('if_none'):
                        raise Violation('expired-row-without-previous-value-not-computed',
                                        'key %s: expiry %s is in the past, no previous value was supplied (data=%s), if_none=False: '
                                        'f was not called and the row holds None' % (kt, e, data_mode), k)
                    if not computed_ok():
                        raise Violation('row-value', 'key %s (expired, no previous value): got %r, expected f(%s) freshly computed' % (kt, got, _fmt_args(args)), k)
                    res.probe('expired-without-previous-value-recomputed')
                    expect_calls = 1
                elif ec == 'today':
                    res.probe('expiry-equals-today(either outcome accepted)')
                    if kept_ok() and has_prev:
                        expect_calls = 0
                    elif computed_ok():
                        expect_calls = 1
                    elif got is None and not has_prev and (not idx or n_calls_for_row < n_rows_same_args) and not cfg.get('if_none'):
                        # (another row may present f with the very same arguments - None values, defaults - and have been computed)
                        # "today" read as already expired + no previous value: the recorded finding
                        raise Violation('expired-row-without-previous-value-not-computed',
                                        'key %s: expiry %s counts as expired on %s, no previous value was supplied (data=%s), if_none=False: '
                                        'f was not called and the row holds None' % (kt, e, today, data_mode), k)
                    else:
                        raise Violation('row-value', 'key %s (expiry today): got %r, neither the previous value nor a fresh f(%s)' % (kt, got, _fmt_args(args)), k)
                else:
                    if not computed_ok():
                        cls = 'stale-value-kept' if has_prev and got == supplied.get(kt) else 'row-value'
                        raise Violation(cls, 'key %s (expiry %s, today %s, previous value %s): got %r, expected a fresh f(%s)'
                                        % (kt, e, today, 'supplied' if has_prev else 'not supplied', got, _fmt_args(args)), k)
                    expect_calls = 1
                    if has_prev:
                        res.probe('row-recomputed-over-previous-value')
                    if kt in (prev or {}) and not has_prev:
                        res.probe('state-loss-recompute')
                if expect_calls == 1:
                    if not idx:
                        raise Violation('call-count', 'key %s: value %r looks computed but the ledger shows no call with %s' % (kt, got, args), k)
                    used[idx[0]] = True
                newprev[kt] = got
            extra_calls = [c for c, u in zip(calls, used) if not u]
            if extra_calls:
                raise Violation('call-count', 'f was called %d times more than the rows that needed computing: extra calls %s' % (len(extra_calls), extra_calls[:3]), k)
            if any(c.startswith('p1') for c in klass) and res.faults.get('clock_jump_back') and any(True for _ in [0]):
                pass
            res.state_keys.add('%s|%s' % (','.join(sorted(klass)), 'mid' if SimClock.now == today else 'day'))
            if prev is not None and res.faults.get('clock_jump_back') and any(c[0] != 'p' for c in klass) and prev:
                res.probe('call-after-backward-jump')
            prev = newprev
            prev_table = out
            # the returned table is the caller's: it may scribble on it (what is fed back tomorrow is rebuilt from the values)
            try:
                out['scribble'] = 1
                out[col] = ['scribbled'] * len(out)
            except Exception:
                pass
            if partial:
                break          # rows with an unknown key column are not fed back
        res.steps = len(trace['ops'])
    except Violation as v:
        res.violation = {'cls': v.cls, 'msg': v.msg, 'step': v.step}
    res.sim_time = abs(SimClock.elapsed())
    res.obs = [len(ledger), res.stats.get('calls', 0), sorted(res.probes), res.violation and res.violation['cls']]
    res.nontrivial = res.stats.get('calls', 0) >= 2 and len(ledger) >= 2 and (not cfg['faulty'] or bool(res.faults))
    return res


def is_dictable_like(x):
    from pyg_base import dictable
    return isinstance(x, dictable)


def _fmt_args(args):
    return '|'.join('%s=%r' % (k, args[k]) for k in sorted(args))


# ----------------------------------------------------------------------------------------------
def shrink_candidates(trace):
    import copy
    for k, op in enumerate(trace['ops']):
        if op['op'] != 'call':
            if op['s'] not in (0, DAY):
                t = copy.deepcopy(trace); t['ops'][k]['s'] = DAY; yield t
            continue
        if op.get('expiry') and 'rows' in op['expiry']:
            for j in range(len(op['expiry']['rows'])):
                t = copy.deepcopy(trace); del t['ops'][k]['expiry']['rows'][j]; yield t
        if op.get('expiry'):
            t = copy.deepcopy(trace); t['ops'][k]['expiry'] = None; yield t
        if op.get('loss'):
            t = copy.deepcopy(trace); t['ops'][k]['loss'] = []; yield t
        if op.get('raise_at'):
            t = copy.deepcopy(trace); t['ops'][k].pop('raise_at'); yield t
        for nm, inp in op['inputs'].items():
            if inp['kind'] == 'table':
                for j in range(len(inp['keys'])):
                    t = copy.deepcopy(trace)
                    del t['ops'][k]['inputs'][nm]['keys'][j]; del t['ops'][k]['inputs'][nm]['vals'][j]; yield t
                t = copy.deepcopy(trace); t['ops'][k]['inputs'][nm] = {'kind': 'scalar', 'v': 1}; yield t
                if inp['col'] != nm:
                    t = copy.deepcopy(trace); t['ops'][k]['inputs'][nm]['col'] = nm; yield t
    cfg = trace['cfg']
    if cfg.get('output_is_input', True) is False:
        t = copy.deepcopy(trace); t['cfg']['output_is_input'] = True; yield t
    for key in ('if_none', 'include_inputs', 'dict_output'):
        if cfg.get(key):
            t = copy.deepcopy(trace); t['cfg'][key] = False; yield t
    if cfg.get('defaults') is not None:
        t = copy.deepcopy(trace); t['cfg']['defaults'] = None; yield t
    if len(cfg['params']) > 1:
        t = copy.deepcopy(trace)
        last = t['cfg']['params'].pop()['name']
        for op in t['ops']:
            if op['op'] == 'call':
                op['inputs'].pop(last, None)
        if t['cfg'].get('defaults'):
            t['cfg']['defaults'].pop(last, None)
        yield t


def size(trace):
    s = 0
    for op in trace['ops']:
        s += 10
        if op['op'] == 'call':
            for inp in op['inputs'].values():
                s += 2 + (3 * len(inp['keys']) if inp['kind'] == 'table' else 0) + (inp.get('col') not in (None, 'x', 'y', 'z', 'w'))
            if op.get('expiry'):
                s += 3 + 2 * len(op['expiry'].get('rows', []))
            s += len(op.get('loss', []))
        elif op['s'] not in (0, DAY):
            s += 1
    cfg = trace['cfg']
    s += 5 * len(cfg['params']) + 3 * bool(cfg.get('if_none')) + 3 * bool(cfg.get('include_inputs')) + 3 * bool(cfg.get('dict_output')) + 3 * (cfg.get('defaults') is not None)
    return s


def signature(trace, violation):
    return violation['cls']


PROBES = ['row-frozen', 'row-recomputed-over-previous-value', 'state-loss-recompute', 'clock-at-midnight-edge', 'default-extends-or-fills',
          'scalar-only-call', 'empty-join', 'dict-output-call', 'join-called-directly', 'scalar-call-with-previous-output', 'input-keyed-by-a-subset-of-the-keys', 'one-of-two-previous-outputs-lost', 'unmatched-key-keeps-None-in-a-key-column', 'expiry-equals-today(either outcome accepted)', 'call-after-backward-jump',
          'expired-without-previous-value-recomputed']
TIERS = {'quick': {'runs': 12000, 'wallcap': 50}, 'thorough': {'runs': 500000, 'wallcap': 800}}
COMPONENTS = {
    'real': ['pyg_base._perdictable perdictable / join', 'pyg_base.dictable join, sort, concatenation', 'pyg_base._dates.dt (today = dt(0))',
             'pyg_base._inspect argument-spec helpers'],
    'stub': ['wall clock (SimClock behind the datetime seam of pyg_base._dates)', 'the caller feeding yesterday\'s output back as data, and its storage losing rows, is the simulator'],
}
RULE = ('one case = one seeded multi-day history on one long-lived perdictable: clock advances (incl. stalls, month-long jumps, backward jumps), '
        'changing inputs, an expiry table classifying each key as absent/None/past/future/today relative to the simulated clock, previous output fed back '
        'as data with rows withheld; non-trivial = at least 2 keyed calls and 2 evaluations of f and, in a fault configuration, at least one fired fault; '
        'distinct = distinct digest of (trace, observations)')
ASSUMPTIONS = ['keys are unique inside each input table; an input, data and expiry table carry every key column',
               'expiry on today\'s date at or before the current time: both "kept" and "recomputed" are accepted (the two code paths differ and the statement says "in the past"); an expiry later than now must recompute',
               'two key columns: rows sorted by the keys in their given order, or in alphabetical column order (what the library does), are accepted',
               'empty join: only "f is not called" is asserted',
               'calls in which every table input is outer-joined are not made with data/expiry keys outside the inputs\' keys (the statement is silent on whether those extend the key set)']
