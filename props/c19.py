"""C19 (waiter clause only): waiter returns the same nested structure with every awaitable
replaced by its result, whatever order the awaitables complete in.

World: the virtual-time loop (sim/loop.py), a nested structure with up to 6 awaitable leaves of
several kinds, a driver that resolves futures at seeded virtual times, seeded timer lateness and
tie-breaking.  Faults (separate configuration): leaf_raise, leaf_cancel, outer_cancel, slow_leaf.
"""
import asyncio
import collections

from sim.core import Violation, Result, canon, make_tape, Tape
from sim.loop import VirtualLoop

PROP = 'C19'
HASH_SENSITIVE = False
CONTAINERS = ['list', 'tuple', 'dict', 'Dict', 'dictattr', 'OrderedDict', 'UserDict', 'UserList', 'named', 'dictable']
LEAF_KINDS = ['sleep', 'task', 'future', 'done', 'twostage', 'shared', 'nested', 'imm', 'custom', 'dep', 'gen', 'done_old', 'reawait']
DELAYS = [0, 0, 1, 1, 2, 5, 3600]
PLAIN = [None, 0, 1, 'x', 2.5, True, {'special': 'future_class'}, {'special': 'handle_class'}, {'special': 'nparray'}, {'special': 'nparray0'},
         {'special': 'series'}, {'special': 'frame'}, {'special': 'range'}, {'special': 'deque'}, {'special': 'bytes'}]


class _HandleClass:
    """instances would be awaitable; the class object itself is plain data"""
    def __await__(self):
        return iter(())


_ARRAYS = {}


def _plain(v):
    if isinstance(v, dict) and 'special' in v:
        import asyncio as _a
        k = v['special']
        if k in ('nparray', 'nparray0', 'series', 'frame'):
            # data whose truth value is ambiguous / that compares element-wise: plain data like any other
            if k not in _ARRAYS:
                import numpy as np
                import pandas as pd
                _ARRAYS[k] = (np.array([1.0, 2.0, 3.0]) if k == 'nparray' else np.array([]) if k == 'nparray0' else pd.Series([1.0, 2.0]) if k == 'series'
                              else pd.DataFrame({'a': [1.0, 2.0]}))
            return _ARRAYS[k]
        if k in ('range', 'deque', 'bytes'):
            # sequences that are neither list nor tuple: plain data, returned as they are
            if k not in _ARRAYS:
                _ARRAYS[k] = range(3) if k == 'range' else collections.deque([1, 2], maxlen=5) if k == 'deque' else b'ab'
            return _ARRAYS[k]
        return _a.Future if k == 'future_class' else _HandleClass
    return v


def _is_arr(a):
    import numpy as np
    import pandas as pd
    return isinstance(a, (np.ndarray, pd.Series, pd.DataFrame))


def _arr_same(a, b):
    import numpy as np
    if a is b:
        return True
    return type(a) is type(b) and a.shape == b.shape and bool(np.all(np.asarray(a) == np.asarray(b)))
FAULTS = ['leaf_raise', 'leaf_cancel', 'outer_cancel', 'slow_leaf']


# ----------------------------------------------------------------------------------------------
# generation (pure: no library code involved)
# ----------------------------------------------------------------------------------------------
def generate(st):
    sw = st.swarm
    g = st.gen
    cfg = {
        'max_depth': sw.choice([2, 3, 4, 4] if getattr(st, 'deep', False) else [1, 2, 2, 3, 3, 4]),
        'n_leaves': sw.choice([4, 5, 6, 6, 6] if getattr(st, 'deep', False) else [1, 2, 2, 3, 3, 4, 4, 5, 6, 6]),
        'containers': sorted(sw.sample(CONTAINERS, sw.randint(1, len(CONTAINERS)))),
        'kinds': sorted(set(sw.sample(LEAF_KINDS, sw.randint(1, len(LEAF_KINDS))) + ['sleep'])),
        'delays': sorted(sw.sample(DELAYS, sw.randint(2, len(DELAYS)))),
        'jitter': sw.random() < 0.6,
        'faulty': sw.random() < 0.4,
        'fault_kinds': sorted(sw.sample(FAULTS, sw.randint(1, len(FAULTS)))),
        'rounds': 2 if sw.random() < 0.3 else 1,
        'falsy_results': sw.random() < 0.3,
        'wide': sw.random() < 0.25,
        'tuple_keys': sw.random() < 0.25,
        'giant': (sw.random() < (0.01 if getattr(st, 'deep', False) else 0.001)),     # a container with hundreds of plain members          # containers with many members
        'shared_containers': sw.random() < 0.3,      # the caller refills the SAME container objects and waits again
        'kwcall': sw.random() < 0.2,                 # waiter(value=...) instead of waiter(...)
        'all_lazy': sw.random() < 0.12,              # no coroutine objects at all: every awaitable is an object with __await__, a Future or a Task
        'rekey': sw.random() < 0.3,                  # second round: mappings get one key dropped and another added (pop / update)
        'records': sw.random() < 0.2,                # lists of dicts with one key set, written in different orders
        # somebody else in the same process waits on a structure of their own at the same time (delays of its three awaitables)
        'twin': [sw.choice(DELAYS), sw.choice(DELAYS), sw.choice(DELAYS)] if sw.random() < 0.3 else None,
    }
    leaves = []
    made = []

    def new_leaf(depth_left):
        i = len(leaves)
        kind = g.choice(cfg['kinds'])
        leaf = {'kind': kind, 'delay': g.choice(cfg['delays'])}
        if kind in ('sleep', 'imm', 'gen', 'twostage', 'dep') and g.random() < (1.0 if cfg.get('all_lazy') else 0.15):
            leaf['lazy'] = True      # handed over as a lazy awaitable object instead of a coroutine
        if cfg.get('falsy_results') and g.random() < 0.4:
            leaf['res'] = g.choice(sorted(RES))
        leaves.append(leaf)
        if kind == 'shared':
            cands = [j for j in range(i) if leaves[j]['kind'] in ('future', 'done', 'task')]
            if cands:
                leaf['of'] = g.choice(cands)
            else:
                leaf['kind'] = 'future'
        elif kind == 'dep':
            leaf['on'] = None        # resolved once all leaves exist (may point forwards)
        elif kind == 'twostage':
            leaf['delay2'] = g.choice(cfg['delays'])
        elif kind == 'nested':
            if depth_left >= 1:
                leaf['sub'] = build(min(depth_left, 2) - 1, top=False, force_container=True)
                leaf['twice'] = g.random() < 0.5      # the coroutine also polls-and-resubmits a dict of its own through waiter
            else:
                leaf['kind'] = 'sleep'
        return {'t': 'leaf', 'i': i}

    def build(depth_left, top, force_container=False):
        can_leaf = len(leaves) < cfg['n_leaves']
        if not force_container and (depth_left <= 0 or (not top and g.random() < 0.45)):
            if can_leaf and g.random() < 0.7:
                return new_leaf(depth_left)
            return {'t': 'plain', 'v': g.choice(PLAIN)}
        okrefs = [m_['id'] for m_ in made if m_['ok']]
        if cfg.get('shared_containers') and okrefs and g.random() < 0.25 and not top:
            return {'t': 'same', 'ref': g.choice(okrefs)}       # the very same container object once more
        c = g.choice(cfg['containers'])
        n = g.choice([0, 1, 2, 2, 3, 3, 4]) if not (cfg.get('wide') and g.random() < 0.4) else g.choice([5, 6, 8, 11])
        if cfg.get('giant') and top:
            n = g.choice([511, 512, 513, 1024, 1025])
        if c == 'named' and not (1 <= n <= 8):
            c = 'dict'          # a record class has a handful of fields
        if c == 'dictable':
            # the library's own table: a mapping of column name -> list, all columns equally long; its cells may be awaitables
            ncol, nrow = g.choice([1, 2, 2, 3]), g.choice([1, 2, 2, 3])
            cols_ = []
            for _ in range(ncol):
                col_ = {'t': 'list', 'items': [build(0, False) for _ in range(nrow)], 'id': len(made)}
                made.append({'id': col_['id'], 'ok': _multi_ok(col_, leaves)})
                cols_.append(col_)
            node = {'t': 'dictable', 'items': cols_, 'id': len(made), 'keys': g.sample(['a', 'b', 'c', 'd', 'e'], ncol)}
            made.append({'id': node['id'], 'ok': False})
            return node
        if cfg.get('records') and c in ('list', 'tuple') and 2 <= n <= 4 and g.random() < 0.5:
            # records: dicts with the same keys, not necessarily written in the same order
            kk = g.sample(['bid', 'ask', 'mid', 'a', 'b', 0], g.choice([2, 3]))
            items = []
            for _ in range(n):
                ks_ = list(kk)
                g.shuffle(ks_)
                sub_ = {'t': 'dict', 'items': [build(0, False) for _ in ks_], 'id': len(made), 'keys': ks_}
                made.append({'id': sub_['id'], 'ok': _multi_ok(sub_, leaves)})
                items.append(sub_)
        else:
            items = [build(depth_left - 1, False) for _ in range(n)]
        if c == 'named' and items and items[-1].get('t') == 'leaf' and g.random() < 0.5:
            leaves[items[-1]['i']]['res'] = 'none'      # the field that has a default receives a genuine None
        node = {'t': c, 'items': items, 'id': len(made)}
        # a container may appear twice only if everything in it can be awaited twice (coroutine objects cannot)
        made.append({'id': node['id'], 'ok': _multi_ok(node, leaves)})
        if c not in ('list', 'tuple', 'UserList'):
            pool = ['a', 'b', 'c', 'd', 'e', 'k1', 'k2', 'f', 'g', 'h', 'i', 'j']
            if c in ('dict', 'OrderedDict', 'UserDict'):
                pool = pool + [0, 1, 7]
                if cfg.get('tuple_keys'):
                    pool = pool + [['a', 'b'], ['a', 0], [0, 1], [0, 0], ['b', 'c'], [1, 'a']]
            g.shuffle(pool)
            node['keys'] = pool[:n] if n <= len(pool) else ['k%d' % j for j in range(n)]
        return node

    top_kind = g.random()
    if top_kind < 0.07:
        structure = new_leaf(cfg['max_depth'])      # a bare awaitable
    elif top_kind < 0.1:
        structure = {'t': 'plain', 'v': g.choice(PLAIN)}
    else:
        structure = build(cfg['max_depth'], True, force_container=True)
    # a 'dep' leaf completes only after another leaf has completed; the target may be listed
    # later, and is never itself a dep/shared/nested leaf, so the dependency graph is acyclic
    for i, leaf in enumerate(leaves):
        if leaf['kind'] == 'dep':
            cands = [j for j in range(len(leaves)) if j != i and leaves[j]['kind'] not in ('shared', 'nested', 'dep')]
            if cands:
                leaf['on'] = g.choice(cands)
            else:
                leaf['kind'] = 'sleep'
    faults = []
    if cfg['faulty'] and leaves:
        f = st.fault
        for _ in range(f.choice([1, 1, 1, 2])):
            kind = f.choice(cfg['fault_kinds'])
            if kind == 'outer_cancel':
                faults.append({'kind': kind, 'at': f.choice([0, 0.5, 1, 1.5, 3, 10])})
            else:
                faults.append({'kind': kind, 'leaf': f.randrange(len(leaves)), 'at': f.choice([0, 0.5, 1, 2, 4]), 'exc': f.choice(['sim', 'sim', 'type', 'key', 'value'])})
    return {'prop': PROP, 'cfg': cfg, 'structure': structure, 'leaves': leaves,
            'faults': faults, 'tape': make_tape(st.sched, 64)}


# ----------------------------------------------------------------------------------------------
# execution
# ----------------------------------------------------------------------------------------------
class SimLeafError(Exception):
    pass


class SimTypeError(TypeError, SimLeafError):
    pass


class SimKeyError(KeyError, SimLeafError):
    pass


class SimValueError(ValueError, SimLeafError):
    pass


RES = {'none': None, 'zero': 0, 'empty': '', 'list': [], 'false': False, 'handle': 'HANDLE', 'arr': 'ARR', 'series': 'SERIES'}


def _res_value(kind):
    # results that compare element-wise (their truth value is ambiguous): an awaitable may result in those too
    if kind == 'arr':
        return _plain({'special': 'nparray'})
    if kind == 'series':
        return _plain({'special': 'series'})
    return RES[kind]


def _copy_res(v):
    return list(v) if isinstance(v, list) else v


LEAF_EXC = {'sim': SimLeafError, 'type': SimTypeError, 'key': SimKeyError, 'value': SimValueError}


class _Lazy:
    """an awaitable object that is not a coroutine and does nothing until it is awaited (an RPC handle, say)"""

    def __init__(self, coro):
        self.coro = coro

    def __await__(self):
        return self.coro.__await__()


class _Quote:
    """a long-lived object that can be awaited again and again; each wait fetches afresh"""

    def __init__(self, fetch):
        self.fetch = fetch

    def __await__(self):
        return self.fetch().__await__()


class _Custom:
    """an awaitable that is neither a coroutine nor a Future"""

    def __init__(self, fut):
        self.fut = fut

    def __await__(self):
        return self.fut.__await__()


class _Book(dict):
    """a user's own mapping class: nothing overridden, in particular not copy()"""


class _Rows(list):
    """a user's own list class"""


_NAMED = {}


class _Expect:
    """expected record: its class and its fields as a plain dict"""

    def __init__(self, cls, fields, seq=False):
        self.cls, self.fields, self.seq = cls, fields, seq

    def __repr__(self):
        return '%s(%r)' % (self.cls.__name__, self.fields) if self.cls not in (list, tuple, dict) else repr(tuple(self.fields) if self.cls is tuple else self.fields)


def _named(keys):
    """the record class (pyg_base.named_dict) with these fields; the last field has a default"""
    keys = tuple(keys)
    if keys not in _NAMED:
        import pyg_base
        _NAMED[keys] = pyg_base.named_dict('Rec%d' % len(_NAMED), list(keys), defaults={keys[-1]: 'unknown'})
    return _NAMED[keys]


def _mk(node, items, keys=None):
    t = node['t']
    if t == 'named':
        ks = _keys(node) if keys is None else keys
        return _named(_keys(node))(dict(zip(ks, items)))
    if t in ('list', 'tuple', 'UserList'):
        return _ctor(t)(items)
    if t == 'dictable':
        return _ctor(t)(dict(zip(_keys(node), items)))
    return _ctor(t)(list(zip(_keys(node) if keys is None else keys, items)))


def _ctor(name):
    import pyg_base
    return {'list': list, 'tuple': tuple, 'dict': dict, 'Dict': pyg_base.Dict, 'dictable': pyg_base.dictable,
            'dictattr': pyg_base.dictattr, 'OrderedDict': collections.OrderedDict, 'UserDict': _Book, 'UserList': _Rows}[name]


def _keys(node):
    return [tuple(k) if isinstance(k, list) else k for k in node['keys']]


def _edit_empties(v, depth=0):
    if depth > 8:
        return
    if isinstance(v, list):
        if not v:
            v.append('edited-by-caller')
        else:
            for x in v:
                _edit_empties(x, depth + 1)
    elif isinstance(v, dict):
        if not v:
            try:
                v['edited-by-caller'] = 1
            except Exception:
                pass
        else:
            for x in list(v.values()):
                _edit_empties(x, depth + 1)
    elif isinstance(v, tuple):
        for x in v:
            _edit_empties(x, depth + 1)


def _multi_ok(node, leaves):
    t = node['t']
    if t in ('plain', 'same'):
        return True
    if t == 'leaf':
        lf = leaves[node['i']]
        return lf['kind'] in ('future', 'task', 'done', 'custom') or (lf['kind'] == 'shared' and lf.get('of') is not None)
    return all(_multi_ok(x, leaves) for x in node['items'])


def _fix_tables(node):
    """a shrunk trace may have cut a table's columns to different lengths (or replaced one by something that is no list): such a
    node is no table any more and is treated as a plain dict"""
    if not isinstance(node, dict) or 'items' not in node:
        return node
    node = dict(node, items=[_fix_tables(x) for x in node['items']])
    if node['t'] == 'dictable':
        cols = node['items']
        if not cols or any(c.get('t') != 'list' for c in cols) or len({len(c['items']) for c in cols}) != 1 or len(cols[0]['items']) == 0 \
                or len(node.get('keys', [])) != len(cols) or not all(isinstance(k_, str) for k_ in node.get('keys', [])):
            node['t'] = 'dict'
    if node['t'] == 'named':
        ks = node.get('keys', [])
        if not ks or len(ks) != len(node['items']) or not all(isinstance(k_, str) and k_.isidentifier() for k_ in ks):
            node['t'] = 'dict'          # a record class needs at least one field, named by an identifier
    return node


def _index_nodes(node, leaves, out):
    if node['t'] in ('plain', 'same'):
        return out
    if node['t'] == 'leaf':
        sub = leaves[node['i']].get('sub') if node['i'] < len(leaves) else None
        if sub is not None:
            _index_nodes(sub, leaves, out)
        return out
    if 'id' in node:
        out[node['id']] = node
    for it in node['items']:
        _index_nodes(it, leaves, out)
    return out


def _leaf_ids(node, leaves, out):
    if node['t'] == 'same':
        return out
    if node['t'] == 'leaf':
        out.append(node['i'])
        sub = leaves[node['i']].get('sub') if node['i'] < len(leaves) else None
        if sub is not None and leaves[node['i']]['kind'] == 'nested':
            _leaf_ids(sub, leaves, out)
    elif node['t'] != 'plain':
        for it in node['items']:
            _leaf_ids(it, leaves, out)
    return out


def execute(trace, ctx=None):
    from pyg_base import waiter
    res = Result()
    leaves = trace['leaves']
    structure = _fix_tables(trace['structure'])
    tape = Tape(trace.get('tape', []))
    loop = VirtualLoop(tape, step_cap=10000, jitter=bool(trace['cfg'].get('jitter', True)))
    used = _leaf_ids(structure, leaves, [])
    nodes_by_id = _index_nodes(structure, leaves, {})
    # a container may be handed over twice only if all it holds can be awaited twice (a shrunk trace may break that)
    ok_ids = {k_: _multi_ok(n_, leaves) for k_, n_ in nodes_by_id.items()}
    by_id = {}
    faults = [f for f in trace.get('faults', []) if f['kind'] == 'outer_cancel' or f.get('leaf') in used]
    raise_on = {f['leaf'] for f in faults if f['kind'] == 'leaf_raise'}
    exc_of = {f['leaf']: LEAF_EXC.get(f.get('exc', 'sim'), SimLeafError) for f in faults if f['kind'] == 'leaf_raise'}
    cancel_at = {}
    for f in faults:
        if f['kind'] == 'leaf_cancel':
            cancel_at.setdefault(f['leaf'], f['at'])
    slow = {f['leaf'] for f in faults if f['kind'] == 'slow_leaf'}
    outer = [f['at'] for f in faults if f['kind'] == 'outer_cancel']
    faulty = bool(faults)
    rounds = 2 if (trace['cfg'].get('rounds') == 2 and not outer and not any(leaves[i]['kind'] == 'nested' for i in used)
                   and not any(n_.get('t') == 'dictable' for n_ in nodes_by_id.values())) else 1

    started = collections.Counter()
    finished = []           # completion order of leaf bodies
    done_events = {}
    coros = []              # coroutine objects handed to waiter (to detect never-awaited ones)
    objs = {}

    def delay_of(i, key='delay'):
        return 3600 if (i in slow and gen['n'] == 1) else leaves[i].get(key, 0)

    gen = {'n': 1}
    handles = {}
    containers = []         # (object, node) of every mutable container handed to waiter, children before parents
    node_obj = {}

    def result_of(i):
        # an awaitable may perfectly well result in None, 0, '' or an empty list
        kind_ = leaves[i].get('res') if i < len(leaves) else None
        if kind_ == 'handle':
            key_ = (i, gen['n'])
            if key_ not in handles:
                h_ = loop.create_future()
                h_.set_result(['inner', i])
                handles[key_] = h_
            return handles[key_]
        if kind_ in RES:
            return _copy_res(_res_value(kind_))
        return ['r', i] if gen['n'] == 1 else ['r', i, gen['n']]

    def ev(i):
        if i not in done_events:
            done_events[i] = asyncio.Event()
        return done_events[i]

    def finish(i):
        finished.append(i)
        ev(i).set()
        if i in raise_on and gen['n'] == 1:
            res.fault('leaf_raise')
            raise exc_of.get(i, SimLeafError)(i)
        return result_of(i)

    def fut_finish(fut, i):
        if fut.done():
            return
        finished.append(i)
        ev(i).set()
        if i in raise_on and gen['n'] == 1:
            res.fault('leaf_raise')
            fut.set_exception(exc_of.get(i, SimLeafError)(i))
        else:
            fut.set_result(result_of(i))

    async def c_sleep(i, g_=1):
        started[(i, g_)] += 1
        await asyncio.sleep(delay_of(i))
        return finish(i)

    async def c_imm(i, g_=1):
        started[(i, g_)] += 1
        return finish(i)

    async def c_two(i, gate, g_=1):
        started[(i, g_)] += 1
        await gate
        await asyncio.sleep(delay_of(i, 'delay2'))
        return finish(i)

    async def c_dep(i, j, g_=1):
        started[(i, g_)] += 1
        await ev(j).wait()
        await asyncio.sleep(0)
        return finish(i)

    async def c_nested(i, sub, g_=1):
        started[(i, g_)] += 1
        if leaves[i].get('twice'):
            # a private dict waited on, one member replaced, waited on again: two calls, two answers
            async def quick(r):
                return r
            priv = {'a': quick('P1'), 'b': 5}
            r1_ = await waiter(priv)
            priv['a'] = quick('P2')
            r2_ = await waiter(priv)
            if r1_ != {'a': 'P1', 'b': 5} or r2_ != {'a': 'P2', 'b': 5}:
                box['nested_bad'] = (r1_, r2_)
            res.probe('waiter-called-twice-on-one-dict-from-inside-a-wait')
        v = await waiter(sub)
        finished.append(i)
        ev(i).set()
        return v

    def gen_leaf(i, g_=1):
        # a generator-based awaitable object (types.coroutine style) is not generated: python 3.12
        # no longer treats bare generators as awaitable.  'gen' is an async function that suspends
        # several times.
        async def c(i=i, g_=g_):
            started[(i, g_)] += 1
            for _ in range(3):
                await asyncio.sleep(0)
            await asyncio.sleep(delay_of(i))
            return finish(i)
        return c()

    def driver_future(i, d):
        fut = loop.create_future()
        loop.call_later(d, fut_finish, fut, i)
        return fut

    kept = {}               # healthy long-lived awaitables of the caller that survive a failed first round

    def make_leaf(i):
        if i in objs:
            # the same trace leaf referenced twice can only happen after shrinking; share the object
            return objs[i]
        if gen['n'] == 2 and i in kept:
            objs[i] = kept[i]
            return kept[i]
        leaf = leaves[i]
        k = leaf['kind']
        if k == 'sleep':
            o = c_sleep(i, gen['n']); coros.append((i, o, gen['n']))
        elif k == 'imm':
            o = c_imm(i, gen['n']); coros.append((i, o, gen['n']))
        elif k == 'gen':
            o = gen_leaf(i, gen['n']); coros.append((i, o, gen['n']))
        elif k == 'task':
            o = loop.create_task(c_sleep(i, gen['n']))
        elif k == 'future':
            o = driver_future(i, delay_of(i))
        elif k == 'done':
            o = loop.create_future()
            fut_finish(o, i)
        elif k == 'done_old':
            # a future that completed in an EARLIER event loop, since closed (yesterday's batch): its result is there for the taking
            old_ = VirtualLoop(Tape([]), step_cap=10, jitter=False)
            o = old_.create_future()
            o.set_result(result_of(i))
            finished.append(i)
            ev(i).set()
            try:
                old_.close()
            except Exception:
                pass
            res.probe('future-completed-in-an-earlier-loop')
        elif k == 'reawait':
            # the caller's own long-lived awaitable object: the SAME object is waited on in every round
            if i not in quotes:
                async def fetch_(i=i):
                    started[(i, gen['n'])] += 1
                    await asyncio.sleep(delay_of(i))
                    return finish(i)
                quotes[i] = _Quote(fetch_)
            else:
                res.probe('same-awaitable-object-waited-on-again')
            o = quotes[i]
        elif k == 'custom':
            o = _Custom(driver_future(i, delay_of(i)))
        elif k == 'twostage':
            gate = loop.create_future()
            loop.call_later(delay_of(i), lambda g=gate: (not g.done()) and g.set_result(None))
            o = c_two(i, gate, gen['n']); coros.append((i, o, gen['n']))
        elif k == 'shared':
            j = leaf.get('of')
            if j is None or j not in objs or leaves[j]['kind'] not in ('future', 'done', 'task'):
                o = driver_future(i, delay_of(i))
            else:
                o = objs[j]
        elif k == 'dep':
            j = leaf.get('on')
            if j is None or j not in used or j == i or leaves[j]['kind'] in ('shared', 'nested', 'dep'):
                o = c_sleep(i, gen['n'])
            else:
                o = c_dep(i, j, gen['n'])
            coros.append((i, o, gen['n']))
        elif k == 'nested':
            sub = build(leaf['sub']) if leaf.get('sub') is not None else []
            o = c_nested(i, sub, gen['n']); coros.append((i, o, gen['n']))
        else:
            raise ValueError(k)
        if leaf.get('lazy') and asyncio.iscoroutine(o):
            o = _Lazy(o)
            res.probe('lazy-awaitable-object')
        objs[i] = o
        if i in cancel_at and k != 'shared' and gen['n'] == 1:
            def do_cancel(o=o, i=i):
                target = o.fut if isinstance(o, _Custom) else o
                if isinstance(target, asyncio.Future):
                    if not target.done():
                        res.fault('leaf_cancel')
                        target.cancel()
                # coroutine objects cannot be cancelled from outside; the fault is then a no-op
            loop.call_later(cancel_at[i], do_cancel)
        return o

    def build(node):
        t = node['t']
        if t == 'plain':
            return _plain(node['v'])
        if t == 'same':
            if not ok_ids.get(node['ref']):
                return None
            if node['ref'] in by_id:
                res.probe('same-container-twice')
            return by_id.get(node['ref'])
        if t == 'leaf':
            return make_leaf(node['i'])
        items = [build(x) for x in node['items']]
        o = _mk(node, items)
        if t != 'tuple' and recording['on']:
            containers.append((o, node))
            node_obj[id(node)] = o
        if 'id' in node:
            by_id[node['id']] = o
        return o

    recording = {'on': True}
    quotes = {}             # leaf -> the caller's re-awaitable object (survives the rounds)

    def refill(node):
        """second round: fresh awaitables put into the container objects of the first round (tuples are rebuilt)"""
        t = node['t']
        if t == 'plain':
            return _plain(node['v'])
        if t == 'same':
            return by_id.get(node['ref']) if ok_ids.get(node['ref']) else None
        if t == 'leaf':
            return make_leaf(node['i'])
        items = [refill(x) for x in node['items']]
        if t == 'tuple':
            o = tuple(items)
            if 'id' in node:
                by_id[node['id']] = o
            return o
        o = node_obj[id(node)]
        if t in ('list', 'UserList'):
            o[:] = items
        elif rekey and _keys(node) and t != 'named':
            # the caller drops one key and adds another with pop() / update(): as many entries as before, other names
            ks_ = _keys(node)
            o.pop(ks_[0])
            o.update(dict(zip(ks_[1:], items[1:])))
            o.update({_newkey(ks_[0]): items[0]})
            res.probe('mapping-rekeyed-between-rounds')
        else:
            o.clear()
            o.update(list(zip(_keys(node), items)))
        return o

    def expected(node):
        t = node['t']
        if t == 'plain':
            return _plain(node['v'])
        if t == 'same':
            return expected(nodes_by_id[node['ref']]) if node['ref'] in nodes_by_id and node['ref'] in by_id and ok_ids.get(node['ref']) else None
        if t == 'leaf':
            i = node['i']
            leaf = leaves[i]
            if leaf['kind'] == 'nested':
                return expected(leaf['sub']) if leaf.get('sub') is not None else []
            def kept_result(j):
                tgt_ = kept[j].fut if isinstance(kept[j], _Custom) else kept[j]
                try:
                    return tgt_.result()
                except BaseException:
                    return ['kept-awaitable-did-not-finish-normally', j]
            if gen['n'] == 2 and i in kept:
                return kept_result(i)
            if leaf['kind'] == 'shared' and leaf.get('of') is not None and leaf['of'] in objs \
                    and leaves[leaf['of']]['kind'] in ('future', 'done', 'task') and objs.get(i) is objs.get(leaf['of']):
                if gen['n'] == 2 and leaf['of'] in kept:
                    return kept_result(leaf['of'])
                return result_of(leaf['of'])
            return result_of(i)
        items = [expected(x) for x in node['items']]
        # what a container must hold is stated without going through the container class's own constructor (a constructor of the
        # library that has gone wrong would build the same wrong object on both sides)
        if t in ('list', 'tuple', 'UserList'):
            return _Expect(_ctor(t), list(items), seq=True)
        if t != 'named' and rekey and gen['n'] == 2 and _keys(node):
            ks_ = _keys(node)
            return _Expect(_ctor(t), dict(zip(ks_[1:] + [_newkey(ks_[0])], items[1:] + items[:1])))
        return _Expect(_named(_keys(node)) if t == 'named' else _ctor(t), dict(zip(_keys(node), items)))

    rekey = bool(trace['cfg'].get('rekey')) and not faulty and rounds == 2

    def _newkey(k_):
        return ('r2', k_) if isinstance(k_, tuple) else 'r2_%s' % (k_,)

    box = {}

    def wcall(v):
        # the two documented call forms: positional and by the parameter's name
        if trace['cfg'].get('kwcall'):
            res.probe('called-by-keyword')
            return waiter(value=v)
        return waiter(v)

    async def main():
        value = build(structure)
        box['built'] = True
        for at in outer:
            def do_outer():
                if not loop.main_task.done():
                    res.fault('outer_cancel')
                    loop.main_task.cancel()
            loop.call_later(at, do_outer)
        if rounds == 2 and faulty:
            # the first attempt may fail (an awaitable raises or is cancelled); the caller catches that, refills the
            # same containers with fresh awaitables and waits again: the second attempt must be right
            try:
                r1 = await wcall(value)
                box['r1_failed'] = False
            except (SimLeafError, asyncio.CancelledError) as e_:
                if isinstance(e_, asyncio.CancelledError) and loop.main_task.cancelling():
                    raise
                box['r1_failed'] = True
                res.probe('second-round-after-failed-first')
                # gather leaves the siblings of a failed awaitable running: a sensible caller lets them finish before
                # it touches the containers they are reading
                await asyncio.sleep(4000)
                # the caller replaces what failed; its other long-lived futures / tasks stay where they are and must still
                # be usable (nobody but their owner may cancel them)
                bad_ = set(raise_on) | set(cancel_at)
                for i_, o_ in list(objs.items()):
                    lf_ = leaves[i_]
                    if lf_['kind'] in ('future', 'task', 'custom') and i_ not in bad_ and not lf_.get('res'):
                        kept[i_] = o_
                if kept:
                    res.probe('healthy-awaitables-reused-after-failure')
            box['exp1'] = None
            box['r1_ok'] = True
            gen['n'] = 2
            objs.clear(); done_events.clear()
            for i_ in kept:
                ev(i_).set()         # they are finished already: whoever waits for them may go ahead
            recording['on'] = False
            value2 = refill(structure)
            box['round2'] = True         # from here on nothing is faulty any more: the second attempt must succeed
            r2 = await wcall(value2)
            return ('two-rounds', None, r2)
        r1 = await wcall(value)
        if rounds == 2:
            box['exp1'] = expected(structure)
            box['r1_ok'] = _same(r1, box['exp1'])
            box['r1_repr'] = repr(r1)[:300]
            _edit_empties(r1)        # the result belongs to the caller
            if box['r1_ok'] and structure['t'] not in ('leaf', 'plain', 'same') and isinstance(r1, (list, dict)) and not isinstance(r1, _ctor('dictable')) and type(r1).__name__ not in ('_Rec',) and not type(r1).__name__.startswith('Rec'):
                # ... which may put new awaitables into it and wait on it: they are served like any others
                async def late_(v_):
                    await asyncio.sleep(0)
                    return v_
                if isinstance(r1, list):
                    r1.append(late_('N1'))
                    r1b = await wcall(r1)
                    okb = isinstance(r1b, list) and len(r1b) == len(r1) and _same(r1b[-1], 'N1')
                else:
                    r1['zz_new'] = late_('N1')
                    r1b = await wcall(r1)
                    okb = isinstance(r1b, dict) and 'zz_new' in r1b and _same(r1b['zz_new'], 'N1')
                if not okb:
                    box['extend_bad'] = repr(r1b)[:300]
                res.probe('result-extended-with-awaitables-and-waited-on-again')
            gen['n'] = 2
            objs.clear(); done_events.clear()
            recording['on'] = False
            value2 = refill(structure)
            r2 = await wcall(value2)
            res.probe('second-round-on-same-containers')
            return ('two-rounds', r1, r2)
        return r1

    twin = trace['cfg'].get('twin')
    if twin:
        async def top():
            async def t_sleep(d, r):
                await asyncio.sleep(d)
                return r
            fut = loop.create_future()
            loop.call_later(twin[2], lambda: fut.done() or fut.set_result('T3'))
            # the other user's wait starts first and overlaps ours at every step
            other = asyncio.ensure_future(waiter({'p': t_sleep(twin[0], 'T1'), 'q': [t_sleep(twin[1], 'T2'), 7, ()], 'r': fut}))
            inner = asyncio.ensure_future(main())
            loop.main_task = inner
            try:
                r = ('ok', await inner)
            except BaseException as e_:
                r = ('exc', e_)
            try:
                tw = ('ok', await other)
            except BaseException as e_:
                tw = ('exc', e_)
            return r, tw
        outcome = loop.run_main(top)
        if outcome[0] == 'ok':
            outcome, tw = outcome[1]
            res.probe('concurrent-independent-wait')
            want_tw = {'p': 'T1', 'q': ['T2', 7, ()], 'r': 'T3'}
            if tw[0] != 'ok' or not _same(tw[1], want_tw):
                res.violation = {'cls': 'wrong-result', 'msg': 'a second, independent waiter running at the same time returned %r, expected %r' % (tw[1], want_tw), 'step': None}
                res.obs = ['twin']
                return res
    else:
        outcome = loop.run_main(main)
    for i in slow:
        if started[(i, 1)] or leaves[i]['kind'] in ('future', 'custom', 'task'):
            res.fault('slow_leaf')
    # close never-started coroutines (avoids RuntimeWarning noise); remember them
    never = []
    last_gen = gen['n']
    for i, c, g_ in coros:
        # coroutines of a FAILED first round may legitimately never have been started (their gather was torn down)
        if started[(i, g_)] == 0 and g_ == last_gen:
            never.append(i)
        try:
            c.close()
        except Exception:
            pass
    res.steps = loop.iterations
    res.sim_time = loop.time()
    kind, val = outcome
    exp = expected(structure) if box.get('built') else None
    if kind == 'ok' and isinstance(val, tuple) and len(val) == 3 and isinstance(val[0], str) and val[0] == 'two-rounds':
        if not box.get('r1_ok'):
            res.violation = {'cls': 'wrong-result', 'msg': 'first round: got %s expected %r' % (box.get('r1_repr'), box['exp1']), 'step': None}
            res.obs = ['two-rounds-first']
            return res
        val = val[2]
        two_rounds_done = True
    else:
        two_rounds_done = False
    n_leaves = len(set(used))

    # ---- observations (no set iteration, nothing address dependent) ----
    res.obs = [kind, canon(val) if kind == 'ok' else (type(val).__name__ if val is not None else None),
               list(finished), loop.iterations, repr(loop.time())]
    shape = _shape(structure, leaves)
    perm = tuple(finished)
    res.state_keys.add('%s|%s' % (shape, ','.join(map(str, perm))))
    if 2 <= len(perm) <= 6 and len(set(perm)) == len(perm) == n_leaves:
        res.sets.setdefault('orders-k%d' % n_leaves, set()).add(','.join(map(str, _rank(perm))))
    res.nontrivial = n_leaves >= 2 and (not faulty or bool(res.faults))
    # probes
    if any(finished[a] > finished[a + 1] for a in range(len(finished) - 1)):
        res.probe('later-listed-completes-first')
    if loop.timer_ties:
        res.probe('tie-broken-by-scheduler')
    if loop.late_timers:
        res.probe('timer-fired-late')
    if _depth(structure, leaves) >= 3:
        res.probe('nested-depth>=3')
    if _dict_out_of_order(structure, leaves, finished):
        res.probe('dict-values-complete-out-of-key-order')
    if any(leaves[i]['kind'] == 'shared' and leaves[i].get('of') is not None for i in set(used)):
        res.probe('same-awaitable-twice')
    if any(leaves[i]['kind'] == 'dep' for i in set(used)):
        res.probe('leaf-depends-on-other-leaf')

    # ---- oracles ----
    try:
        if box.get('extend_bad'):
            raise Violation('wrong-result', 'the first result, extended by the caller with a new awaitable and handed to waiter again, came back as %s' % box['extend_bad'])
        if box.get('nested_bad'):
            raise Violation('wrong-result', 'a coroutine inside the structure that waits twice on a dict of its own (one member replaced in between) got %r then %r'
                            % box['nested_bad'])
        if kind == 'deadlock':
            raise Violation('no-termination', 'waiter never completes: nothing runnable, nothing scheduled (finished=%s)' % finished)
        if kind == 'stepcap':
            raise Violation('no-termination', 'waiter exceeded %d loop iterations' % loop.step_cap)
        if not faulty or two_rounds_done:
            if kind != 'ok':
                raise Violation('unexpected-exception', 'waiter raised %s: %s' % (type(val).__name__, val))
            if not _same(val, exp):
                raise Violation('wrong-result', 'got %r expected %r (completion order %s)' % (val, exp, finished))
            for i in sorted(set(used)):
                if i in kept:
                    continue
                if leaves[i]['kind'] in ('sleep', 'imm', 'gen', 'twostage', 'dep', 'nested', 'task') and started[(i, last_gen)] != 1:
                    raise Violation('leaf-start-count', 'leaf %d (%s) started %d times' % (i, leaves[i]['kind'], started[(i, last_gen)]))
            if never:
                raise Violation('leaf-start-count', 'coroutine leaves never awaited: %s' % never)
        elif box.get('round2') and kind != 'ok':
            raise Violation('second-round-failed', 'after a failed first attempt the caller replaced what had failed and waited again: waiter raised %s: %s '
                            '(its healthy awaitables must still be usable)' % (type(val).__name__, val))
        else:
            if kind == 'ok':
                fired_bad = set()
                if res.faults.get('leaf_raise'):
                    fired_bad |= raise_on
                if res.faults.get('leaf_cancel'):
                    fired_bad |= set(cancel_at)
                # shared leaves alias their source
                for i in set(used):
                    if leaves[i]['kind'] == 'shared' and leaves[i].get('of') in fired_bad:
                        fired_bad.add(i)
                if fired_bad:
                    res.probe('fault-swallowed')
                if not _same(val, exp, skip=fired_bad, structure=structure, leaves=leaves):
                    raise Violation('wrong-result-under-fault', 'got %r expected %r except at leaves %s' % (val, exp, sorted(fired_bad)))
            else:
                if not isinstance(val, (SimLeafError, asyncio.CancelledError)):
                    raise Violation('unexpected-exception', 'waiter raised %s: %s under faults %s' % (type(val).__name__, val, faults))
    except Violation as v:
        res.violation = {'cls': v.cls, 'msg': v.msg, 'step': None}
    return res


# ----------------------------------------------------------------------------------------------
# helpers
# ----------------------------------------------------------------------------------------------
def _same(a, b, skip=None, structure=None, leaves=None):
    """deep, container-type-strict equality; with skip: positions of faulted leaves may hold anything"""
    if skip and structure is not None:
        return _same_skip(a, structure, leaves, skip)
    if isinstance(b, _Expect):
        if type(a) is not b.cls:
            return False
        if b.seq:
            return len(a) == len(b.fields) and all(_same(x, y) for x, y in zip(list(a), b.fields))
        return list(a.keys()) == list(b.fields.keys()) and all(_same(a[k], b.fields[k]) for k in b.fields)
    if type(a) is not type(b):
        return False
    if _is_arr(a):
        return _arr_same(a, b)
    if isinstance(a, (list, tuple)):
        return len(a) == len(b) and all(_same(x, y) for x, y in zip(a, b))
    if isinstance(a, dict):
        return list(a.keys()) == list(b.keys()) and all(_same(a[k], b[k]) for k in a)
    return a == b


def _same_skip(val, node, leaves, skip):
    t = node['t']
    if t == 'same':
        return True          # compared at its first occurrence
    if t == 'plain':
        pv = _plain(node['v'])
        if _is_arr(pv):
            return _arr_same(val, pv)
        return type(val) is type(pv) and val == pv
    if t == 'leaf':
        i = node['i']
        if i in skip:
            return True
        leaf = leaves[i]
        if leaf['kind'] == 'nested' and leaf.get('sub') is not None:
            return _same_skip(val, leaf['sub'], leaves, skip)
        def res_(j):
            k_ = leaves[j].get('res')
            if k_ == 'handle':
                return val if hasattr(val, 'done') else ['no-handle']
            return _res_value(k_) if k_ in RES else ['r', j]
        if leaf['kind'] == 'shared' and leaf.get('of') is not None:
            return _same(val, res_(leaf['of'])) or _same(val, res_(i))
        return _same(val, res_(i))
    if type(val) is not (_named(_keys(node)) if t == 'named' else _ctor(t)):
        return False
    if len(val) != len(node['items']):
        return False
    if t in ('list', 'tuple', 'UserList'):
        return all(_same_skip(v, n, leaves, skip) for v, n in zip(val, node['items']))
    if list(val.keys()) != _keys(node):
        return False
    return all(_same_skip(val[k], n, leaves, skip) for k, n in zip(_keys(node), node['items']))


def _shape(node, leaves):
    t = node['t']
    if t == 'plain':
        return '.'
    if t == 'same':
        return '='
    if t == 'leaf':
        leaf = leaves[node['i']]
        if leaf['kind'] == 'nested' and leaf.get('sub') is not None:
            return 'N' + _shape(leaf['sub'], leaves)
        return leaf['kind'][0]
    return t[0] + '(' + ''.join(_shape(x, leaves) for x in node['items']) + ')'


def _depth(node, leaves):
    t = node['t']
    if t in ('plain', 'same'):
        return 0
    if t == 'leaf':
        leaf = leaves[node['i']]
        if leaf['kind'] == 'nested' and leaf.get('sub') is not None:
            return _depth(leaf['sub'], leaves)
        return 0
    return 1 + max([_depth(x, leaves) for x in node['items']] + [0])


def _rank(perm):
    order = sorted(perm)
    return [order.index(p) for p in perm]


def _dict_out_of_order(node, leaves, finished):
    t = node['t']
    if t in ('plain', 'same'):
        return False
    if t == 'leaf':
        leaf = leaves[node['i']]
        if leaf['kind'] == 'nested' and leaf.get('sub') is not None:
            return _dict_out_of_order(leaf['sub'], leaves, finished)
        return False
    if t not in ('list', 'tuple', 'UserList'):
        ids = [x['i'] for x in node['items'] if x['t'] == 'leaf' and x['i'] in finished]
        pos = [finished.index(i) for i in ids]
        if any(pos[a] > pos[a + 1] for a in range(len(pos) - 1)):
            return True
    return any(_dict_out_of_order(x, leaves, finished) for x in node['items'])


# ----------------------------------------------------------------------------------------------
# shrinking: property-specific candidates (the generic ddmin handles lists named in SHRINK_LISTS)
# ----------------------------------------------------------------------------------------------
def shrink_candidates(trace):
    import copy
    # 1. drop faults
    for k in range(len(trace.get('faults', []))):
        t = copy.deepcopy(trace); del t['faults'][k]; yield t
    # 2. truncate / zero the tape, switch jitter off
    if trace.get('tape'):
        t = copy.deepcopy(trace); t['tape'] = []; yield t
        t = copy.deepcopy(trace); t['tape'] = t['tape'][:len(t['tape']) // 2]; yield t
    if trace['cfg'].get('jitter'):
        t = copy.deepcopy(trace); t['cfg']['jitter'] = False; yield t
    if trace['cfg'].get('rounds') == 2:
        t = copy.deepcopy(trace); t['cfg']['rounds'] = 1; yield t
    # 3. structural: replace a container by one of its children; drop one item
    paths = []

    def walk(node, path):
        paths.append(path)
        if node['t'] not in ('plain', 'leaf', 'same'):
            for k, it in enumerate(node['items']):
                walk(it, path + [k])
    walk(trace['structure'], [])

    def get(node, path):
        for k in path:
            node = node['items'][k]
        return node

    def put(root, path, new):
        if not path:
            return new
        parent = get(root, path[:-1])
        parent['items'][path[-1]] = new
        return root

    for p in paths:
        node = get(trace['structure'], p)
        if node['t'] in ('plain', 'leaf', 'same'):
            if node['t'] in ('leaf', 'same') and p:
                t = copy.deepcopy(trace)
                t['structure'] = put(t['structure'], p, {'t': 'plain', 'v': 0}); yield t
            continue
        for k in range(len(node['items'])):
            t = copy.deepcopy(trace)
            n2 = get(t['structure'], p)
            del n2['items'][k]
            if 'keys' in n2:
                del n2['keys'][k]
            yield t
            t = copy.deepcopy(trace)
            t['structure'] = put(t['structure'], p, copy.deepcopy(node['items'][k])); yield t
        if node['t'] != 'list':
            t = copy.deepcopy(trace)
            n2 = get(t['structure'], p)
            n2['t'] = 'list'; n2.pop('keys', None); yield t
    # 4. simplify leaves
    for i, leaf in enumerate(trace['leaves']):
        if leaf['kind'] not in ('sleep',):
            t = copy.deepcopy(trace)
            t['leaves'][i] = {'kind': 'sleep', 'delay': leaf.get('delay', 0)}; yield t
        if leaf.get('delay', 0) not in (0,):
            t = copy.deepcopy(trace); t['leaves'][i]['delay'] = 0; yield t
            t = copy.deepcopy(trace); t['leaves'][i]['delay'] = 1; yield t


def size(trace):
    n = [0]

    def walk(node):
        n[0] += 1
        if node['t'] not in ('plain', 'leaf', 'same'):
            for it in node['items']:
                walk(it)
        elif node['t'] == 'leaf':
            n[0] += 2
    walk(trace['structure'])
    for leaf in trace['leaves']:
        n[0] += (leaf['kind'] != 'sleep') + (leaf.get('delay', 0) != 0)
        if leaf.get('sub') is not None:
            walk(leaf['sub'])
    return n[0] * 10 + len(trace.get('faults', [])) * 5 + len(trace.get('tape', [])) // 8 + bool(trace['cfg'].get('jitter')) + 3 * (trace['cfg'].get('rounds') == 2)


def signature(trace, violation):
    """identifies a *specific* failing shape for the known-findings file"""
    return violation['cls']


COMPONENTS = {
    'real': ['pyg_base._waiter.waiter', 'asyncio.Task / Future / gather / sleep / Event (CPython 3.12)',
             'pyg_base.Dict, pyg_base.dictattr, collections.OrderedDict containers'],
    'stub': ['event-loop selector (no I/O exists)', 'loop clock (virtual time, jumps to next timer)',
             'driver that resolves bare futures at seeded virtual times'],
}
RULE = ('one case = one (structure, leaf kinds, delays, fault list, scheduler tape) drawn from the run key; '
        'non-trivial = at least 2 awaitable leaves and, in a fault configuration, at least one fault that actually fired; '
        'distinct = distinct digest of (trace, observed completion order, result)')
PROBES = ['later-listed-completes-first', 'tie-broken-by-scheduler', 'timer-fired-late', 'dict-values-complete-out-of-key-order',
          'nested-depth>=3', 'same-awaitable-twice', 'leaf-depends-on-other-leaf', 'second-round-on-same-containers', 'same-container-twice', 'second-round-after-failed-first', 'healthy-awaitables-reused-after-failure']
TIERS = {'quick': {'runs': 40000, 'wallcap': 45}, 'thorough': {'runs': 4000000, 'wallcap': 780}}
ASSUMPTIONS = ['only legal asyncio schedules are generated: FIFO call_soon, timers never early, seeded lateness and tie order',
               'only the waiter clause of C19 is decided here; the lifting/zipper/as_list clauses are pure and not covered']
