"""C05: Calendar business-day arithmetic agrees with day-by-day counting; a calendar fetched by key
reflects the holidays it was last registered with.

World: the module-level `calendars` registry (cleared per run), 1-3 keys, unregistered Calendar
objects, a seeded stream of (re-)registrations and queries.  The lookup tables dt2int/int2dt are
built lazily and cached on the object, so whether a query meets a cold or a warm table, and a table
built for the current or for a superseded configuration, depends on the history -- that is what is
simulated.  The arithmetic laws are the read oracle (plain day-by-day loops over the configuration
last registered under the key).
"""
import datetime

from sim.core import Violation, Result

PROP = 'C05'
HASH_SENSITIVE = False
DAY = datetime.timedelta(days=1)
WEEKENDS = [[5, 6], [4, 5], [6], []]
QUERIES = ['is_bday', 'is_holiday', 'adjust', 'add', 'bdays', 'addinv', 'add2', 'drange', 'dt_bump', 'clock', 'add_ts']
MARGIN = 170      # days kept clear at both ends of the calendar's range (|n| <= 40 business days never leaves it)


def _d(s):
    return datetime.datetime.fromisoformat(s)


def _iso(t):
    return t.isoformat()


# ----------------------------------------------------------------------------------------------
# the day-by-day reference
# ----------------------------------------------------------------------------------------------
class Ref:
    def __init__(self, holidays, weekend, t0, t1, adj='m'):
        self.h = {datetime.datetime(x.year, x.month, x.day) for x in holidays}
        self.w = set(weekend)
        self.t0, self.t1, self.adj = t0, t1, adj

    def is_bday(self, t):
        d = datetime.datetime(t.year, t.month, t.day)
        return d.weekday() not in self.w and d not in self.h

    def adjust(self, t, adj=None):
        adj = adj or self.adj
        d = datetime.datetime(t.year, t.month, t.day)
        if adj == 'f':
            while not self.is_bday(d):
                d += DAY
            return d
        if adj == 'p':
            while not self.is_bday(d):
                d -= DAY
            return d
        f = self.adjust(t, 'f')
        return f if f.month == t.month else self.adjust(t, 'p')

    def add(self, t, n, adj=None):
        d = self.adjust(t, adj)
        step = DAY if n > 0 else -DAY
        for _ in range(abs(n)):
            d += step
            while not self.is_bday(d):
                d += step
        return d

    def bdays(self, a, b, adj=None):
        x, y = self.adjust(a, adj), self.adjust(b, adj)
        lo, hi = (x, y) if x <= y else (y, x)
        n = 0
        d = lo
        while d < hi:
            d += DAY
            if self.is_bday(d):
                n += 1
        return n if x <= y else -n

    def drange(self, a, b):
        x, y = self.adjust(a), self.adjust(b)
        out = []
        d = x
        while d <= y:
            if self.is_bday(d):
                out.append(d)
            d += DAY
        return out

    def inside(self, t):
        return self.t0 + MARGIN * DAY <= t <= self.t1 - MARGIN * DAY

    def long_run(self, t):
        """True if a run of non-business days longer than 25 days touches t (tables/loops near range edges are out of scope)"""
        n = 0
        d = datetime.datetime(t.year, t.month, t.day)
        while not self.is_bday(d) and n < 40:
            d += DAY
            n += 1
        return n >= 25


# ----------------------------------------------------------------------------------------------
# generation
# ----------------------------------------------------------------------------------------------
def _gen_config(g, dense=None):
    y0 = g.choice([1999, 2000, 2011, 2019, 2023])
    years = g.choice([2, 2, 3])
    t0 = datetime.datetime(y0, g.choice([1, 1, 7]), 1)
    t1 = datetime.datetime(y0 + years, g.choice([1, 6, 12]), g.choice([1, 28]))
    span = (t1 - t0).days
    density = g.choice([0.0, 0.01, 0.03, 0.1, 0.3]) if dense is None else dense
    hol = []
    d = 0
    while d < span:
        if g.random() < density / 2.0:
            run = g.choice([1, 1, 1, 2, 3, 5])
            for j in range(run):
                hol.append(t0 + datetime.timedelta(days=d + j))
            d += run
        d += 1
    # runs placed on purpose across month ends and next to weekends
    for _ in range(g.choice([0, 1, 2, 4])):
        y = y0 + g.randrange(years)
        m = g.randint(1, 12)
        first_next = datetime.datetime(y + (m == 12), (m % 12) + 1, 1)
        start = first_next - datetime.timedelta(days=g.choice([1, 2, 3]))
        for j in range(g.choice([1, 2, 3, 4, 6])):
            hol.append(start + datetime.timedelta(days=j))
    if g.random() < 0.3:
        hol = hol + g.sample(hol, min(len(hol), 3))      # listed twice
    g.shuffle(hol)                                        # unsorted
    keep_outside = g.random() < 0.3
    outside = [t0 - datetime.timedelta(days=g.choice([1, 3, 40, 400])) for _ in range(g.choice([1, 2, 3]))] + [t1 + datetime.timedelta(days=g.choice([1, 10, 366]))]
    hol = [h for h in hol if t0 <= h <= t1] + (outside if keep_outside else [])
    g.shuffle(hol)
    return {'hol': [_iso(h) for h in hol], 'weekend': g.choice(WEEKENDS), 't0': _iso(t0), 't1': _iso(t1)}


def _interesting_dates(cfg, g, k=12):
    t0, t1 = _d(cfg['t0']), _d(cfg['t1'])
    lo, hi = t0 + MARGIN * DAY, t1 - MARGIN * DAY
    out = []
    hol = [_d(h) for h in cfg['hol']]
    inner = [h for h in hol if lo <= h <= hi]
    for _ in range(k):
        r = g.random()
        if r < 0.4 and inner:
            t = g.choice(inner) + datetime.timedelta(days=g.choice([-2, -1, 0, 0, 1, 2]))
        elif r < 0.6:
            y = g.randint(lo.year, hi.year)
            m = g.randint(1, 12)
            first = datetime.datetime(y, m, 1)
            t = first + datetime.timedelta(days=g.choice([-3, -2, -1, 0, 1]))
        else:
            t = lo + datetime.timedelta(days=g.randrange(max((hi - lo).days, 1)))
        if lo <= t <= hi:
            if g.random() < 0.2:
                # a time of day: it never matters (also when only the seconds or only the microseconds are non-zero)
                t = t + g.choice([datetime.timedelta(hours=9, minutes=59), datetime.timedelta(hours=23, minutes=59), datetime.timedelta(microseconds=250000),
                                  datetime.timedelta(seconds=1), datetime.timedelta(hours=23, minutes=59, seconds=59, microseconds=999999)])
            out.append(t)
    return out or [lo + DAY]


def generate(st):
    sw, g, f = st.swarm, st.gen, st.fault
    cfg = {
        'n_keys': sw.choice([1, 1, 2, 3]),
        'n_ops': sw.choice([10, 20, 30, 50] + ([90, 140] if getattr(st, 'deep', False) else [])),
        'p_rereg': sw.choice([0.0, 0.05, 0.15, 0.3]),
        'queries': sorted(sw.sample(QUERIES, sw.randint(3, len(QUERIES)))),
        'n_small': sw.random() < 0.5,
        'faulty': sw.random() < 0.6,
        'slots': sw.choice([0, 0, 1, 2]),
    }
    if not cfg['faulty']:
        cfg['p_rereg'] = 0.0
    keys = ['K%d' % i for i in range(cfg['n_keys'])]
    current = {}          # target id -> config (generator's view, to place dates well)
    ops = []

    def nval():
        if cfg['n_small'] and g.random() < 0.6:
            return g.choice([-2, -1, 0, 1, 2])
        return g.choice([-40, -21, -10, -5, -3, -2, -1, 0, 1, 2, 3, 5, 10, 21, 40])

    def query(target):
        c = current[target]
        if g.random() < 0.06:
            # near the ends of the calendar's range the n-th business day may lie outside it: the library may refuse
            # (raise), it must not answer with another date
            t0_, t1_ = _d(c['t0']), _d(c['t1'])
            near = (t0_ + datetime.timedelta(days=g.randrange(0, 45))) if g.random() < 0.5 else (t1_ - datetime.timedelta(days=g.randrange(0, 45)))
            if g.random() < 0.35:
                # a listing of business days that starts (or ends) with the calendar's very first (last) days
                a_ = (t0_ + datetime.timedelta(days=g.choice([0, 0, 1, 2, 3, 5]))) if g.random() < 0.6 else (t1_ - datetime.timedelta(days=g.choice([0, 1, 2, 3, 5, 9])))
                b_ = a_ + datetime.timedelta(days=g.choice([0, 0, 1, 2, 4, 9]))
                return {'op': 'q', 'on': target, 'kind': 'edge', 't': _iso(a_), 't2': _iso(min(b_, t1_)), 'n': 0, 'adj': None, 'via': 'drange'}
            return {'op': 'q', 'on': target, 'kind': 'edge', 't': _iso(near), 'n': g.choice([-40, -21, -10, -5, -2, 2, 5, 10, 21, 40]),
                    'adj': g.choice([None, 'f', 'p', 'm']), 'via': g.choice(['add', 'dt_bump'])}
        kind = g.choice(cfg['queries'])
        ds = _interesting_dates(c, g, 2)
        q = {'op': 'q', 'on': target, 'kind': kind, 't': _iso(ds[0]), 'tform': g.choice(['datetime', 'datetime', 'datetime', 'timestamp', 'date'])}
        if kind in ('adjust',):
            q['adj'] = g.choice(['f', 'p', 'm', None])
        if kind == 'add_ts':
            q['n'] = g.choice([-2, -1, 0, 1, 1, 2, 3])
            q['adj'] = g.choice(['f', 'p', 'm'])
            q['len'] = g.choice([3, 5, 8])
        if kind in ('add', 'addinv', 'dt_bump'):
            q['n'] = nval()
            q['adj'] = g.choice([None, None, 'f', 'p', 'm'])
        if kind in ('bdays', 'drange'):
            t2 = ds[0] + datetime.timedelta(days=g.choice([0, 1, 3, 10, 45, 100]))
            q['t2'] = _iso(t2)
        return q

    def sibling(c):
        # another market with the same range, weekend and NUMBER of business days: one holiday falls on another day
        hs = [h for h in c['hol'] if c['t0'] <= h <= c['t1']]
        c2 = dict(c, hol=list(c['hol']))
        ref_ = Ref([_d(h) for h in c['hol']], c['weekend'], _d(c['t0']), _d(c['t1']))
        cands = [h for h in hs if _d(h).weekday() not in c['weekend']]
        if not cands:
            return c2
        h = g.choice(cands)
        for delta in g.sample([-9, -5, -3, 3, 4, 8, 11], 7):
            h2 = _d(h) + datetime.timedelta(days=delta)
            if _d(c['t0']) <= h2 <= _d(c['t1']) and ref_.is_bday(h2):
                c2['hol'] = [x for x in c['hol'] if x != h] + [_iso(h2)] * c['hol'].count(h)
                break
        return c2

    for key in keys:
        c = _gen_config(g) if not (current and g.random() < 0.3) else sibling(current[g.choice(sorted(current))])
        ops.append(dict(op='register', key=key, via='args', **c))
        current['key:' + key] = c
    for j in range(cfg['slots']):
        c = _gen_config(g) if not (current and g.random() < 0.3) else dict(sibling(current[g.choice(sorted(current))]))
        c['adj'] = g.choice(['f', 'p', 'm'])
        # an object built directly is nobody's registration, even when it carries the key of a registered calendar
        ops.append(dict(op='new_cal', slot=j, ckey=(g.choice(keys) if g.random() < 0.4 else None), **c))
        current['slot:%d' % j] = c
    if g.random() < 0.35 and current:
        # one more calendar object, DERIVED from an existing (still unused) one: a plain copy, or the same calendar with another
        # weekend through the mapping idioms every calendar inherits.  It keeps what it is not told to change (holidays, range, adj)
        src = g.choice(sorted(current))
        how = g.choice(['copy', 'copy', 'call', 'plus'])
        c = dict(current[src])
        c.setdefault('adj', 'm')
        if how != 'copy':
            c['weekend'] = g.choice([w for w in WEEKENDS if w != c['weekend']])
        j = cfg['slots']
        ops.append({'op': 'derive_cal', 'slot': j, 'from': src, 'how': how, 'weekend': c['weekend']})
        current['slot:%d' % j] = c
    targets = sorted(current)
    last_target = None
    while len(ops) < cfg['n_ops']:
        r = f.random() if cfg['faulty'] else 1.0
        if g.random() < 0.004:
            ops.append({'op': 'many_keys', 'n': g.choice([31, 32, 33, 40, 70])})
        if cfg['faulty'] and g.random() < 0.12:
            ops.append({'op': 'clock', 's': g.choice([-86400 * 3, -2, 0, 5, 3600, 86400 * 40])})
        if r < cfg['p_rereg'] * 0.25:
            # fault: a registration that fails half-way (unparseable range); the key must keep its previous calendar
            key = g.choice(keys)
            c = _gen_config(g)
            ops.append(dict(op='register_bad', key=key, hol=c['hol'], weekend=c['weekend'], bad=g.choice(['t0', 't1'])))
            for _ in range(g.choice([1, 2])):
                ops.append(query('key:' + key))
            last_target = 'key:' + key
        elif r < cfg['p_rereg']:
            key = g.choice(keys)
            via = g.choice(['args', 'args', 'obj', 'obj_with_holidays', 'obj_with_weekend', 'only_hol', 'only_weekend'])
            old = current['key:' + key]
            c = _gen_config(g)
            if via == 'obj_with_holidays':
                c = dict(old, hol=c['hol'] if c['hol'] else [old['t0']])
                c['hol'] = [h for h in c['hol'] if old['t0'] <= h <= old['t1']] or [_iso(_d(old['t0']) + 200 * DAY)]
            if via == 'obj_with_weekend':
                nw = g.choice([w for w in WEEKENDS if w and w != old['weekend']] or [[5, 6]])
                c = dict(old, weekend=nw)
            if via in ('only_hol', 'only_weekend'):
                # calendar(key, holidays) / calendar(key, weekend=...) and nothing else: everything not given is the documented
                # default (weekend Sat/Sun, no holidays, 1900..2300) -- also when what IS given is an empty list
                c = dict(old, hol=([] if g.random() < 0.5 else [h for h in c['hol'] if old['t0'] <= h <= old['t1']]) if via == 'only_hol' else [],
                         weekend=[5, 6] if via == 'only_hol' else g.choice(WEEKENDS))
            dropped = None
            if via == 'args' and g.random() < 0.2 and len(old['hol']) >= 1 and not old.get('samelist_blocked'):
                # the caller edits ITS list of holidays in place (one date replaced, as many entries as before) and registers it again
                hs = list(old['hol'])
                j_ = g.randrange(len(hs))
                dropped = hs[j_]
                ref_ = Ref([_d(h) for h in hs], old['weekend'], _d(old['t0']), _d(old['t1']))
                for delta in g.sample([-11, -8, -4, -3, 3, 4, 5, 10], 8):
                    h2 = _d(dropped) + datetime.timedelta(days=delta)
                    if _d(old['t0']) <= h2 <= _d(old['t1']) and ref_.is_bday(h2):
                        hs[j_] = _iso(h2)
                        break
                if hs.count(dropped):
                    dropped = None
                c = dict(old, hol=hs)
                via = 'same_list'
            elif via == 'args' and g.random() < 0.25 and len(set(old['hol'])) >= 2 and len(old['hol']) == len(set(old['hol'])):
                # same range, same weekend, as many entries as before, every one of them a holiday before too - but one date is
                # gone and another is listed twice
                hs = sorted(set(old['hol']))
                dropped = g.choice(hs)
                keep = [h for h in hs if h != dropped]
                c = dict(old, hol=keep + [g.choice(keep)])
                g.shuffle(c['hol'])
            elif via == 'args' and g.random() < 0.3:
                c = dict(old, hol=c['hol'])       # same range and weekend, other holidays
                c['hol'] = [h for h in c['hol'] if old['t0'] <= h <= old['t1']]
            ops.append(dict(op='register', key=key, via=via, **c))
            current['key:' + key] = c
            # queries land right after the re-registration
            if dropped is not None:
                ops.append({'op': 'q', 'on': 'key:' + key, 'kind': g.choice(['is_bday', 'is_holiday', 'adjust']), 't': dropped, 'tform': 'datetime', 'adj': 'f'})
            for _ in range(g.choice([1, 2, 3])):
                ops.append(query('key:' + key))
            if g.random() < 0.35:
                ops.append({'op': 'stale_use', 'key': key, 't': _iso(_interesting_dates(old, g, 1)[0])})
                for _ in range(g.choice([1, 2])):
                    ops.append(query('key:' + key))
            last_target = 'key:' + key
        else:
            # alternate targets so that cross-talk between calendars would show
            cands = [t for t in targets if t != last_target] or targets
            target = g.choice(cands) if g.random() < 0.7 else g.choice(targets)
            ops.append(query(target))
            last_target = target
    return {'prop': PROP, 'cfg': cfg, 'ops': ops}


# ----------------------------------------------------------------------------------------------
# execution
# ----------------------------------------------------------------------------------------------
def execute(trace, ctx=None):
    from pyg_base import calendar, Calendar
    import pyg_base._drange as R
    res = Result()
    from sim.seams import SimClock
    SimClock.reset(datetime.datetime(2022, 5, 17, 11, 30))
    R.calendars.clear()
    refs = {}        # target -> Ref of the configuration last registered
    slots = {}
    registered_count = {}
    held_lists = {}  # target -> the caller's own list of holidays handed over at the last registration by arguments
    stale = {}       # target -> (calendar object registered before the last re-registration, its reference)
    warmed = {}      # target -> True once a table-building query ran on the current object
    state = {'step': 0}

    def lib(fn, what):
        try:
            return fn()
        except Exception as e:
            raise Violation('unexpected-exception', '%s raised %s: %s' % (what, type(e).__name__, str(e)[:200]), state['step'])

    try:
        for k, op in enumerate(trace['ops']):
            state['step'] = k
            kind = op['op']
            if kind == 'many_keys':
                # other users of the process register calendars of their own; ours must still be there afterwards
                for j in range(op['n']):
                    lib(lambda j=j: calendar('other%d' % j, holidays=[datetime.datetime(2020, 1, 1 + j % 28)], t0=datetime.datetime(2019, 1, 1), t1=datetime.datetime(2021, 1, 1)), 'calendar(other key)')
                res.probe('many-other-keys-registered')
                continue
            if kind == 'clock':
                from sim.seams import SimClock
                SimClock.advance(datetime.timedelta(seconds=op['s']))
                res.fault('clock_jump_back' if op['s'] < 0 else 'clock_jump_fwd' if op['s'] > 3600 else 'clock_tick')
                continue
            if kind == 'stale_use':
                # the holder of an object registered EARLIER under this key keeps using it (methods and module-level functions
                # that take a calendar object); it answers by its own holidays, and the key keeps answering by the latest
                so = stale.get('key:' + op['key'])
                if so is None:
                    continue
                sobj, sref = so
                t = _d(op['t'])
                if not sref.inside(t) or sref.long_run(t) or (sref.t1 - sref.t0).days > 40000:
                    continue
                import pandas as pd
                from pyg_base import clock as clock_fn
                t2 = t + 9 * DAY
                if sref.inside(t2):
                    ab = lib(lambda: clock_fn(pd.Series([1.0, 2.0], index=[t, t2]), sobj), 'clock(series, earlier calendar object)')
                    if int(ab[1]) - int(ab[0]) != sref.bdays(t, t2):
                        raise Violation('bdays', 'an earlier calendar object of %s: clock difference over 9 days = %r, counting by ITS holidays gives %r'
                                        % (op['key'], int(ab[1]) - int(ab[0]), sref.bdays(t, t2)), k)
                got = lib(lambda: sobj.is_bday(t), 'earlier_object.is_bday')
                if bool(got) != sref.is_bday(t):
                    raise Violation('is-bday', 'an earlier calendar object of %s answers is_bday(%s) = %r, by its own holidays %r' % (op['key'], op['t'], got, sref.is_bday(t)), k)
                res.probe('earlier-object-used-after-reregistration')
                continue
            if kind == 'derive_cal':
                src = op['from']
                sref = refs.get(src)
                sobj = calendar(src[4:]) if src.startswith('key:') else slots.get(int(src[5:]))
                if sref is None or sobj is None or warmed.get(src):
                    continue
                W = list(op['weekend'])
                if op['how'] == 'copy':
                    dobj = lib(lambda: Calendar(sobj), 'Calendar(calendar_object)')
                    W = sorted(sref.w)
                elif op['how'] == 'call':
                    dobj = lib(lambda: sobj(key='derived%d' % op['slot'], weekend=W), 'calendar_object(key=..., weekend=...)')
                else:
                    dobj = lib(lambda: sobj + dict(key='derived%d' % op['slot'], weekend=W), 'calendar_object + dict(weekend=...)')
                if not isinstance(dobj, Calendar):
                    raise Violation('unexpected-exception', 'deriving a calendar (%s) gave a %s' % (op['how'], type(dobj).__name__), k)
                slots[op['slot']] = dobj
                refs['slot:%d' % op['slot']] = Ref(sorted(sref.h), W, sref.t0, sref.t1, sref.adj)
                warmed['slot:%d' % op['slot']] = False
                res.probe('calendar-derived-from-another-' + op['how'])
                continue
            if kind == 'register_bad':
                hol = [_d(h) for h in op['hol']]
                kw = {'t0': None, 't1': None}
                kw[op['bad']] = 'not-a-date-at-all'
                try:
                    calendar(op['key'], holidays=hol, weekend=list(op['weekend']), **kw)
                except Exception:
                    res.fault('failed_registration')
                else:
                    # the library accepted it: then it IS a registration and the model cannot follow (range unknown) -> stop checking this key
                    refs.pop('key:' + op['key'], None)
                continue
            if kind in ('register', 'new_cal'):
                hol = [_d(h) for h in op['hol']]
                t0, t1 = _d(op['t0']), _d(op['t1'])
                weekend = list(op['weekend'])
                if kind == 'new_cal':
                    cal = lib(lambda: Calendar(op.get('ckey') or 'slot%d' % op['slot'], holidays=hol, weekend=weekend, t0=t0, t1=t1, adj=op.get('adj', 'm')), 'Calendar(...)')
                    slots[op['slot']] = cal
                    refs['slot:%d' % op['slot']] = Ref(hol, weekend, t0, t1, op.get('adj', 'm'))
                    warmed['slot:%d' % op['slot']] = False
                    continue
                key = op['key']
                tkey = 'key:' + key
                via = op.get('via', 'args')
                if tkey in refs:
                    try:
                        stale[tkey] = (calendar(key), refs[tkey])      # somebody still holds the object registered before
                    except Exception:
                        pass
                    res.fault('reregistration')
                    if warmed.get(tkey):
                        res.probe('reregistration-over-warm-table')
                if via == 'same_list' and tkey in refs and tkey in held_lists and len(held_lists[tkey]) == len(hol):
                    lst = held_lists[tkey]
                    lst[:] = hol                       # the very list object handed over last time, edited in place
                    lib(lambda: calendar(key, holidays=lst, weekend=weekend, t0=t0, t1=t1), 'calendar(key, same list object edited in place, ...)')
                    refs[tkey] = Ref(hol, weekend, t0, t1, 'm')
                    res.probe('same-list-object-edited-and-registered-again')
                elif via in ('args', 'same_list') or tkey not in refs:
                    held_lists[tkey] = hol
                    lib(lambda: calendar(key, holidays=hol, weekend=weekend, t0=t0, t1=t1), 'calendar(key, ...)')
                    refs[tkey] = Ref(hol, weekend, t0, t1, 'm')
                elif via in ('only_hol', 'only_weekend'):
                    from pyg_base._drange import TMIN, TMAX
                    if via == 'only_hol':
                        lib(lambda: calendar(key, hol), 'calendar(key, holidays)')
                        res.probe('reregistration-with-holidays-only' + ('-empty' if not hol else ''))
                    else:
                        lib(lambda: calendar(key, weekend=weekend), 'calendar(key, weekend=...)')
                        res.probe('reregistration-with-weekend-only' + ('-empty' if not weekend else ''))
                    refs[tkey] = Ref(hol, weekend, TMIN, TMAX, 'm')
                elif via == 'obj':
                    obj = Calendar(key, holidays=hol, weekend=weekend, t0=t0, t1=t1, adj=op.get('adj', 'm'))
                    lib(lambda: calendar(obj), 'calendar(calendar_object)')
                    refs[tkey] = Ref(hol, weekend, t0, t1, op.get('adj', 'm'))
                elif via == 'obj_with_weekend':
                    old = refs[tkey]
                    obj = lib(lambda: calendar(key), 'calendar(key)')
                    if not weekend:
                        continue
                    lib(lambda: calendar(obj, weekend=weekend), 'calendar(calendar_object, weekend=...)')
                    refs[tkey] = Ref(sorted(old.h), weekend, old.t0, old.t1, 'm')      # holidays (also those on old weekend days) are inherited
                    res.probe('reregistration-with-another-weekend')
                else:
                    old = refs[tkey]
                    obj = lib(lambda: calendar(key), 'calendar(key)')
                    if not hol:
                        continue
                    lib(lambda: calendar(obj, holidays=hol), 'calendar(calendar_object, holidays=...)')
                    refs[tkey] = Ref(hol, sorted(old.w), old.t0, old.t1, 'm')
                warmed[tkey] = False
                registered_count[tkey] = registered_count.get(tkey, 0) + 1
                continue
            # ---------------- a query ----------------
            target = op['on']
            ref = refs.get(target)
            if ref is None:
                continue
            if target.startswith('key:'):
                cal = lib(lambda: calendar(target[4:]), 'calendar(key)')
            else:
                cal = slots.get(int(target[5:]))
                if cal is None:
                    continue
            t = _d(op['t'])
            if op['kind'] == 'edge' and op.get('via') == 'drange':
                t2 = _d(op['t2'])
                if (ref.t1 - ref.t0).days > 40000 or not (ref.t0 <= t <= t2 <= ref.t1) or ref.long_run(t) or ref.long_run(t2):
                    continue
                x_, y_ = ref.adjust(t), ref.adjust(t2)
                if not (ref.t0 <= x_ <= ref.t1 and ref.t0 <= y_ <= ref.t1):
                    continue            # the adjusted endpoint falls off the calendar: nothing is promised

                def search_stays_inside(d0):
                    # adjusting looks at the days after d0 (and, across a month end, before it): if that search has to leave the
                    # calendar's range - where a listed holiday may or may not count - nothing is promised either
                    d_ = d0
                    while not ref.is_bday(d_):
                        d_ += DAY
                        if d_ > ref.t1:
                            return False
                    if d_.month != d0.month:
                        d_ = d0
                        while not ref.is_bday(d_):
                            d_ -= DAY
                            if d_ < ref.t0:
                                return False
                    return True
                if not (search_stays_inside(t) and search_stays_inside(t2)):
                    res.stat('edge-listing-skipped(search leaves the range)')
                    continue
                exp = ref.drange(t, t2)
                try:
                    got = cal.drange(t, t2, '1b')
                except Exception as e:
                    raise Violation('unexpected-exception', '%s.drange(%s, %s) raised %s: %s although both adjusted endpoints lie inside the range' % (target, op['t'], op['t2'], type(e).__name__, e), k)
                if list(got) != exp:
                    raise Violation('drange', '%s.drange(%s, %s) at the edge of the range = %s..(%d days), expected %s..(%d days)' % (target, op['t'], op['t2'], list(got)[:3], len(got), exp[:3], len(exp)), k)
                res.probe('drange-at-range-edge')
                warmed[target] = True
                continue
            if op['kind'] == 'edge':
                if not (ref.t0 <= t <= ref.t1) or not ref.is_bday(t) or ref.long_run(t) or ((ref.t1 - ref.t0).days > 40000 and k % 4):
                    continue
                n, adj = op['n'], op.get('adj')
                exp = ref.add(t, n, adj)
                try:
                    got = cal.add(t, n, adj) if op.get('via') != 'dt_bump' else cal.dt_bump(t, '%db' % n, adj)
                except Exception:
                    res.fault('query_beyond_range_refused')
                    if ref.t0 + 10 * DAY <= exp <= ref.t1 - 10 * DAY:
                        raise Violation('unexpected-exception', '%s.add(%s, %d) raised although the answer %s lies inside the range' % (target, op['t'], n, exp), k)
                    continue
                if got != exp:
                    raise Violation('add-table', '%s.add(%s, %d, adj=%s) near the end of the range = %s, counting day by day gives %s' % (target, op['t'], n, adj or ref.adj, got, exp), k)
                res.probe('query-near-range-edge')
                warmed[target] = True
                continue
            if not ref.inside(t) or ref.long_run(t):
                continue
            tl = t                             # the form in which the library is handed the date; the reference keeps the datetime
            if op.get('tform') == 'timestamp':
                import pandas as pd
                tl = pd.Timestamp(t)           # a datetime subclass: every answer must be the same
                if k % 2:
                    tl = tl + pd.Timedelta(nanoseconds=500)     # tick data carries nanoseconds; the day is the same
                res.probe('query-date-as-Timestamp')
            elif op.get('tform') == 'date' and op['kind'] in ('is_bday', 'is_holiday', 'adjust', 'add', 'bdays'):
                tl = datetime.date(t.year, t.month, t.day)
                res.probe('query-date-as-date')
            q = op['kind']
            if (ref.t1 - ref.t0).days > 40000 and (q not in ('is_bday', 'is_holiday', 'adjust', 'add', 'dt_bump') or abs(op.get('n', 0)) > 1 or k % 3 == 0):
                continue            # a 400-year table costs half a second of real time: only the table-free queries on such a calendar
            fresh = target.startswith('key:') and registered_count.get(target, 0) > 1
            cold = not warmed.get(target)
            what = '%s.%s(%s)' % (target, q, op['t'])
            if q == 'is_bday':
                got = lib(lambda: cal.is_bday(tl), what)
                exp = ref.is_bday(t)
                if bool(got) != exp:
                    raise Violation('is-bday', '%s = %r, day-by-day says %r' % (what, got, exp), k)
            elif q == 'is_holiday':
                got = lib(lambda: cal.is_holiday(tl), what)
                if bool(got) != (not ref.is_bday(t)):
                    raise Violation('is-bday', '%s = %r, day-by-day says %r' % (what, got, not ref.is_bday(t)), k)
            elif q == 'adjust':
                adj = op.get('adj')
                got = lib(lambda: cal.adjust(tl, adj), what)
                exp = ref.adjust(t, adj)
                if got != exp:
                    raise Violation('adjust', '%s adj=%s = %s, day-by-day says %s' % (what, adj or ref.adj, got, exp), k)
                if (adj or ref.adj) == 'm' and ref.adjust(t, 'f').month != t.month:
                    res.probe('modified-following-falls-back')
                if k % 4 == 0:
                    # the documented container forms: a list / tuple / dict of dates is adjusted element-wise
                    t2 = t + 3 * DAY
                    gl = lib(lambda: cal.adjust([tl, t2], adj), what)
                    gd = lib(lambda: cal.adjust({'x': tl, 'y': t2}, adj), what)
                    if list(gl) != [exp, ref.adjust(t2, adj)] or dict(gd) != {'x': exp, 'y': ref.adjust(t2, adj)}:
                        raise Violation('adjust', '%s on a list/dict of dates = %s / %s' % (what, gl, gd), k)
            elif q in ('add', 'dt_bump'):
                n, adj = op['n'], op.get('adj')
                exp = ref.add(t, n, adj)
                if not ref.inside(exp):
                    continue
                if q == 'add':
                    got = lib(lambda: cal.add(tl, n, adj), what)
                else:
                    got = lib(lambda: cal.dt_bump(tl, ('%db' if k % 2 else '%dB') % n, adj), what)      # the unit may be written in either case
                if got != exp:
                    cls = 'add-single-step' if abs(n) <= 1 else 'add-table'
                    raise Violation(cls, '%s n=%d adj=%s = %s, counting day by day gives %s%s' % (what, n, adj or ref.adj, got, exp,
                                                                                                 ' (after a re-registration)' if fresh else ''), k)
                if abs(n) <= 1 and cold:
                    res.probe('single-step-before-populate')
                if abs(n) > 1:
                    warmed[target] = True
                if q == 'add' and (k % 3) == 0:
                    # bdays(t, add(t, n)) == n (same adjustment convention on both sides)
                    back = lib(lambda: cal.bdays(tl, got, adj), what)
                    if back != n:
                        raise Violation('bdays', '%s: bdays(t, add(t, %d)) = %r' % (what, n, back), k)
                    warmed[target] = True
            elif q == 'addinv':
                n, adj = op['n'], op.get('adj')
                s = ref.adjust(t, adj)
                mid = ref.add(s, n, adj)
                if not ref.inside(mid):
                    continue
                got = lib(lambda: cal.add(cal.add(s, n, adj), -n, adj), what)
                if got != s:
                    raise Violation('add-inverse', '%s: add(add(%s, %d), %d) = %s' % (what, s, n, -n, got), k)
                if abs(n) > 1:
                    warmed[target] = True
            elif q == 'add2':
                adj = op.get('adj')
                sgn = 1 if (t.day % 2) else -1
                exp = ref.add(t, 2 * sgn, adj)
                if not ref.inside(exp):
                    continue
                a = lib(lambda: cal.add(tl, 2 * sgn, adj), what)
                b = lib(lambda: cal.add(cal.add(tl, sgn, adj), sgn, adj), what)
                if a != b or a != exp:
                    raise Violation('add-paths-disagree', '%s: add(t, %d) = %s via the table, %s via two single steps, day-by-day %s' % (what, 2 * sgn, a, b, exp), k)
                warmed[target] = True
            elif q == 'bdays':
                t2 = _d(op['t2'])
                if not ref.inside(t2) or ref.long_run(t2):
                    continue
                got = lib(lambda: cal.bdays(tl, t2), what)
                exp = ref.bdays(t, t2)
                if got != exp:
                    raise Violation('bdays', '%s..%s = %r, counting gives %r' % (what, op['t2'], got, exp), k)
                n = exp
                if -40 <= n <= 40:
                    back = lib(lambda: cal.add(tl, n), what)
                    if back != ref.adjust(t2) and ref.inside(back):
                        raise Violation('bdays', 'add(t, bdays(t, t2)) = %s, not adjust(t2) = %s' % (back, ref.adjust(t2)), k)
                warmed[target] = True
            elif q == 'drange':
                t2 = _d(op['t2'])
                if not ref.inside(t2) or ref.long_run(t2):
                    continue
                got = lib(lambda: cal.drange(tl, t2, '1b'), what)
                exp = ref.drange(t, t2)
                if list(got) != exp:
                    raise Violation('drange', '%s..%s = %s..(%d days), expected %s..(%d days)' % (what, op['t2'], got[:3], len(got), exp[:3], len(exp)), k)
                warmed[target] = True
                if isinstance(got, list):
                    # the list now belongs to the caller, who may do with it what it likes; asking again must give the days again
                    got.reverse()
                    del got[:max(1, len(got) // 2)]
                    again = lib(lambda: cal.drange(tl, t2, '1b'), what)
                    if list(again) != exp:
                        raise Violation('drange', '%s..%s asked a second time (after the caller edited the first answer) = %s..(%d days), expected %d days'
                                        % (what, op['t2'], list(again)[:3], len(again), len(exp)), k)
                    res.probe('caller-edits-returned-drange')
            elif q == 'add_ts':
                # a timeseries is shifted by n business days; where several of its dates land on one day, the caller's own
                # aggregate function is called back - and that function uses the same calendar (with its default convention)
                import pandas as pd
                n, adj = op['n'], op['adj']
                ds = [t + j * DAY for j in range(op.get('len', 5))]
                if not all(ref.inside(d_) and not ref.long_run(d_) for d_ in ds):
                    continue
                exp_idx = [ref.add(d_, n, adj) for d_ in ds]
                if not all(ref.inside(e_) for e_ in exp_idx):
                    continue
                seen_cb = []

                def agg(grp):
                    d0 = ds[len(seen_cb) % len(ds)]
                    seen_cb.append((d0, cal.adjust(d0), cal.add(d0, 1), cal.add(d0, -1)))
                    return grp.iloc[-1]
                idx_ = ds
                if k % 3 == 0 and all(d_ == datetime.datetime(d_.year, d_.month, d_.day) for d_ in ds):
                    idx_ = [datetime.date(d_.year, d_.month, d_.day) for d_ in ds]       # a series indexed by plain dates (a daily group-by gives that)
                    res.probe('series-indexed-by-date-objects')
                got = lib(lambda: cal.add(pd.Series([float(j) for j in range(len(ds))], index=idx_), n, adj, agg), what)
                exp = {}
                for j, e_ in enumerate(exp_idx):
                    exp[e_] = float(j)
                if [pd.Timestamp(x).to_pydatetime() for x in got.index] != sorted(exp) or [float(v) for v in got.values] != [exp[e_] for e_ in sorted(exp)]:
                    raise Violation('add-single-step' if abs(n) <= 1 else 'add-table', '%s: a series over %d days shifted by %d (adj=%s) has index %s, expected %s'
                                    % (what, len(ds), n, adj, list(got.index)[:4], sorted(exp)[:4]), k)
                for d0, a_, p1, m1 in seen_cb:
                    if a_ != ref.adjust(d0) or p1 != ref.add(d0, 1) or m1 != ref.add(d0, -1):
                        raise Violation('adjust', '%s: asked from inside the aggregate callback of add(series, %d, adj=%s), the calendar says adjust(%s) = %s, add(+1) = %s, '
                                        'add(-1) = %s; day by day (default convention %s): %s, %s, %s' % (what, n, adj, d0, a_, p1, m1, ref.adj, ref.adjust(d0), ref.add(d0, 1), ref.add(d0, -1)), k)
                if seen_cb:
                    res.probe('aggregate-callback-reenters-the-calendar')
                if abs(n) > 1:
                    warmed[target] = True
            elif q == 'clock':
                t2 = t + 9 * DAY
                if not ref.inside(t2):
                    continue
                if k % 2:
                    import pandas as pd
                    from pyg_base import clock as clock_fn
                    # the module-level form: the calendar object is an ARGUMENT here, using it registers nothing
                    ab = lib(lambda: clock_fn(pd.Series([1.0, 2.0], index=[t, t2]), cal), 'clock(series, calendar_object)')
                    a, b = int(ab[0]), int(ab[1])
                    res.probe('module-level-clock-with-calendar-object')
                else:
                    a = lib(lambda: cal.clock(tl), what)
                    b = lib(lambda: cal.clock(t2), what)
                if b - a != ref.bdays(t, t2):
                    raise Violation('bdays', '%s: clock difference over 9 days = %r, counting gives %r' % (what, b - a, ref.bdays(t, t2)), k)
                warmed[target] = True
            res.stat('queries')
            if fresh:
                res.probe('query-after-reregistration')
            w = ref.w
            dens = len(ref.h) / max((ref.t1 - ref.t0).days, 1)
            res.state_keys.add('%s|%s|%s|%s|%s|%s' % (sorted(w), ref.adj, 'd0' if dens == 0 else 'd1' if dens < 0.05 else 'd2', 'cold' if cold else 'warm', q,
                                                      _ncls(op.get('n'))))
            hrun = _run_across_month_end(ref, t)
            if hrun:
                res.probe('holiday-run-across-month-end')
        res.steps = len(trace['ops'])
    except Violation as v:
        res.violation = {'cls': v.cls, 'msg': v.msg, 'step': v.step}
    res.obs = [res.stats.get('queries', 0), sorted(res.probes), res.violation and res.violation['cls']]
    res.sim_time = abs(SimClock.elapsed())
    res.nontrivial = res.stats.get('queries', 0) >= 3 and (not trace['cfg']['faulty'] or bool(res.faults))
    return res


def _ncls(n):
    if n is None:
        return '-'
    a = abs(n)
    return ('+' if n > 0 else '-' if n < 0 else '') + ('0' if a == 0 else '1' if a == 1 else 's' if a <= 5 else 'L')


def _run_across_month_end(ref, t):
    d = datetime.datetime(t.year, t.month, t.day)
    if ref.is_bday(d):
        return False
    a = d
    while not ref.is_bday(a):
        a -= DAY
    b = d
    while not ref.is_bday(b):
        b += DAY
    return a.month != b.month


# ----------------------------------------------------------------------------------------------
def shrink_candidates(trace):
    import copy
    for k, op in enumerate(trace['ops']):
        if op['op'] in ('register', 'new_cal', 'register_bad'):
            h = op['hol']
            if len(h) > 1:
                t = copy.deepcopy(trace); t['ops'][k]['hol'] = h[:len(h) // 2]; yield t
                t = copy.deepcopy(trace); t['ops'][k]['hol'] = h[len(h) // 2:]; yield t
            if len(h) <= 12:
                for j in range(len(h)):
                    t = copy.deepcopy(trace); del t['ops'][k]['hol'][j]; yield t
            if op['weekend'] != [5, 6]:
                t = copy.deepcopy(trace); t['ops'][k]['weekend'] = [5, 6]; yield t
        if op['op'] == 'q' and op.get('n') not in (None, 0, 1, 2):
            for n in (2, 1, -1, -2):
                t = copy.deepcopy(trace); t['ops'][k]['n'] = n; yield t
        if op['op'] == 'q' and op.get('adj') is not None:
            t = copy.deepcopy(trace); t['ops'][k]['adj'] = None; yield t


def size(trace):
    s = 0
    for op in trace['ops']:
        s += 30
        if 'hol' in op:
            s += len(op['hol']) + (op['weekend'] != [5, 6])
        if op.get('n') is not None:
            s += min(abs(op['n']), 9)
        if op.get('adj') is not None:
            s += 1
    return s


def signature(trace, violation):
    return violation['cls']


PROBES = ['query-after-reregistration', 'reregistration-over-warm-table', 'holiday-run-across-month-end', 'modified-following-falls-back',
          'single-step-before-populate', 'query-near-range-edge', 'caller-edits-returned-drange', 'reregistration-with-another-weekend', 'many-other-keys-registered', 'query-date-as-Timestamp', 'query-date-as-date']
TIERS = {'quick': {'runs': 6000, 'wallcap': 50}, 'thorough': {'runs': 350000, 'wallcap': 800}}
COMPONENTS = {
    'real': ['pyg_base._drange Calendar (is_bday, is_holiday, adjust, add, bdays, drange, dt_bump, clock, _populate)', 'pyg_base._drange.calendar() and the calendars registry',
             'dateutil.rrule (table construction)'],
    'stub': ['the stream of registrations and queries (the simulator)'],
}
RULE = ('one case = one seeded history of registrations under 1-3 keys (re-registration with other holidays/weekend/range, by arguments, by object, by object+holidays), '
        'unregistered Calendar objects with adj f/p/m, and 10-50 queries (is_bday, is_holiday, adjust, add, add-inverse, table-vs-single-step, bdays, drange, dt_bump, clock) '
        'placed next to holidays, month ends and weekends; non-trivial = at least 3 executed queries and, in a fault configuration, at least one re-registration; '
        'distinct = distinct digest of (trace, observations)')
ASSUMPTIONS = ['calendar ranges of 2-3 years; query dates and results kept at least %d days inside the range; holidays are midnight datetimes inside the range' % MARGIN,
               'not injected because the property does not cover them: in-place edits of cal.holidays after the table was built, Calendar(Calendar) copies, calendar(obj, holidays=[])',
               'the arithmetic for one fixed configuration is a pure function: it is the read oracle of the registry / lazy-table simulation and is sampled, not enumerated']
