"""C01: dictable behaves as a rectangular list of records under any operation history.

World: a pool of up to 6 live tables, each paired with a list-of-records model.  A seeded scheduler
picks the next operation and its operands; results join the pool; mutators act in place.  After every
step EVERY live table is compared with its model (so an operation on T2 that silently edits T0 is
blamed on the step that did it).  Faults: reject (ill-fitting construction / assignment / update),
callback_raise@k (the user callable of a derived column / per-column transform / filter raises at its
k-th invocation), and the PYTHONHASHSEED class of the worker (column order of shaped-differently
concatenations is set-iteration order).
"""
import copy as _copy
import datetime
import math

from sim.core import Violation, Result, dec, enc, same

PROP = 'C01'
HASH_SENSITIVE = True
COLS = ['a', 'b', 'c', 'd', 'e', 'f']
CELLS = [None, 0, 1, 2, -3, 2.0, 0.5, float('nan'), '', 'x', 'yy', datetime.datetime(2020, 2, 29), datetime.datetime(2021, 1, 1, 12, 30)]
POOL = 6
FUNCS = ['is_none', 'typename', 'rep', 'str2', 'const7', 'ident']
OPS = ['new_records', 'new_columns', 'new_rows', 'new_empty', 'setitem', 'setitem_from', 'update_from', 'delitem', 'update', 'row', 'col', 'cols_tuple', 'slice',
       'mask', 'take', 'project', 'derive', 'rename', 'do', 'minus', 'copy', 'add', 'iadd', 'add_record', 'add_records', 'add_zero', 'concat', 'sum_rows',
       'inc', 'exc', 'inc_fn', 'inc_all', 'inc_dict', 'edit_returned', 'apply', 'iter_hold', 'setitem_reject', 'new_reject', 'update_reject']


class SimCallbackError(Exception):
    pass


FILTER_DICTS = {}         # per run: the caller's filter dicts as the caller built them (model side)
REAL_FILTER_DICTS = {}    # per run: the objects actually handed to inc/exc


# ----------------------------------------------------------------------------------------------
# the list-of-records model
# ----------------------------------------------------------------------------------------------
class M:
    """cols: ordered column names; rows: list of dicts (every dict has exactly the keys in cols)"""
    __slots__ = ('cols', 'rows')

    def __init__(self, cols=(), rows=()):
        self.cols = list(cols)
        self.rows = [dict(r) for r in rows]

    def copy(self):
        return M(self.cols, self.rows)

    def n(self):
        return len(self.rows)

    def column(self, c):
        return [r[c] for r in self.rows]

    @staticmethod
    def from_columns(cols, n):
        """cols: list of (name, list of n values)"""
        names = []
        for c, _ in cols:
            if c not in names:
                names.append(c)
        last = {c: v for c, v in cols}
        return M(names, [{c: last[c][i] for c in names} for i in range(n)])


def _as_values(spec):
    """trace value spec -> (python value to hand to the library, list form the library must derive from it)"""
    k, v = next(iter(spec.items()))
    if k == 'list':
        vals = [dec(x) for x in v]
        return vals, list(vals)
    if k == 'tuple':
        vals = tuple(dec(x) for x in v)
        return vals, list(vals)
    if k == 'scalar':
        x = dec(v)
        return x, [x]
    raise ValueError(spec)


def _isnan(x):
    return isinstance(x, float) and math.isnan(x)


def _py_in(r, values):
    return any(r is v or r == v for v in values)


def _filter_match(cell, val):
    """the documented meaning of inc/exc(col=value): None matches None, nan matches nan, otherwise membership"""
    if val is None:
        return cell is None
    if _isnan(val):
        return _isnan(cell)
    vals = val if isinstance(val, list) else [val]
    return _py_in(cell, vals)


def _rep(x):
    if isinstance(x, float):
        return 'f:' + repr(x)
    if isinstance(x, datetime.datetime):
        return 'd:' + x.isoformat()
    return '%s:%r' % (type(x).__name__, x)


PURE = {
    'is_none': (1, lambda x: x is None),
    'typename': (1, lambda x: type(x).__name__),
    'rep': (1, _rep),
    'str2': (2, lambda x, y: _rep(x) + '|' + _rep(y)),
    'const7': (0, lambda: 7),
    'ident': (1, lambda x: x),
}


MAX_ROWS = 400
REENTER = {'fn': None}      # set while an operation runs whose callbacks re-enter the library


def _make_reenter(reals, res):
    """what a user function may do while the library is calling it back: look at tables (the very one being worked on included)
    and derive new tables from them.  None of it changes any table, so the operation in progress must come out as always."""
    def reenter(n):
        if not reals or n > 12:
            return            # the first dozen calls of an operation re-enter; the rest of a long column need not
        t = reals[n % len(reals)]
        what = (n // max(len(reals), 1)) % 11
        ks = list(dict.keys(t))
        if what == 0:
            len(t), t.shape
        elif what == 1:
            [dict(r) for r in t]
        elif what == 2:
            if len(t):
                t[0]
                t[-1]
        elif what == 3:
            t + t
        elif what == 4:
            if ks:
                t[ks[:1]]
                t[ks[0]]
        elif what == 5:
            if ks and all(isinstance(c, str) and len(c) < 6 for c in ks):
                t.relabel('p_')
                t.relabel(**{ks[0]: 'zz9'})
        elif what == 6:
            t.copy()
            type(t)(t)
        elif what == 7:
            t[lambda **kw: len(kw)]                      # a formula of its own on that table
        elif what == 8:
            t(zz9=lambda **kw: 2)
        elif what == 9:
            if ks and len(t):
                v0 = t[ks[0]][0]
                t.exc(**{ks[0]: v0})
                t.inc(**{ks[0]: v0})
        else:
            t.inc(lambda **kw: True)
            t.exc(lambda **kw: True)
        res.probe('callback-reentered-the-library')
    return reenter


_SUB = {}                   # dictable class -> the user's subclass of it
SAME_CLASS = ('slice', 'mask', 'take', 'project', 'derive', 'rename', 'do', 'minus', 'copy', 'inc', 'exc', 'inc_fn', 'inc_all', 'inc_dict',
              'add_record', 'add_records', 'add_zero')
LEAKS = []                  # keyword arguments a **kw formula was handed that are not columns of its table
HELD = []                   # half-consumed row iterators somebody keeps alive


def make_callable(fname, argnames, counter, raise_at, extra=None):
    """a real function whose parameter names are `argnames` (the library binds columns by name); with `extra` (a set) the
    function also takes **kw, which must then carry exactly the table's other columns"""
    arity, fn = PURE[fname]

    def body(*args, _kw=None):
        if _kw is not None and set(_kw) != extra:
            LEAKS.append(sorted(_kw))
        counter[0] += 1
        if raise_at is not None and counter[0] == raise_at:
            raise SimCallbackError('injected at call %d' % raise_at)
        if REENTER['fn'] is not None:
            REENTER['fn'](counter[0])
        return fn(*args)
    if extra == 'kwonly' and len(argnames) >= 2:
        # def f(a, *, b='DFLT'): the keyword-only parameter is named like a column and must be handed that column's cell
        src = 'lambda %s, *, %s: body(%s)' % (argnames[0], ', '.join("%s='DFLT'" % a for a in argnames[1:]), ', '.join(argnames))
    elif extra is not None and extra != 'kwonly':
        src = 'lambda %s**kw: body(%s_kw=kw)' % (''.join(a + ', ' for a in argnames), ''.join(a + ', ' for a in argnames))
    else:
        src = 'lambda %s: body(%s)' % (', '.join(argnames), ', '.join(argnames))
    return eval(src, {'body': body})


# ----------------------------------------------------------------------------------------------
# generation: runs the model only (no library code), so it is a pure function of the run key
# ----------------------------------------------------------------------------------------------
def generate(st):
    sw, g, f = st.swarm, st.gen, st.fault
    cfg = {
        'n_ops': sw.choice([5, 8, 12, 16, 24, 40] + ([60, 90] if getattr(st, 'deep', False) else [])),
        'max_rows': sw.choice([2, 3, 4, 6, 6, 25] + ([40] if getattr(st, 'deep', False) else [])),
        'cols': sorted(sw.sample(COLS, sw.randint(2, 6)) + (['data'] if sw.random() < 0.2 else []) + (['columns'] if sw.random() < 0.06 else []) + (['key'] if sw.random() < 0.15 else [])),
        'cells': sorted(sw.sample(range(len(CELLS)), sw.randint(3, len(CELLS)))),
        'faulty': sw.random() < 0.6,
        'off': sorted(sw.sample(OPS[4:35], sw.randint(0, 8))),
        'reenter': sw.random() < 0.3,          # user functions called back by the library use the library themselves
        'subclass': sw.random() < 0.25,        # some tables are instances of the user's own subclass of dictable
        'locality': sw.choice([0.0, 0.0, 0.4, 0.7]),     # probability that an operation works on the same table as the one before
    }
    _LAST[0] = None
    FILTER_DICTS.clear()
    REAL_FILTER_DICTS.clear()
    cells = [CELLS[i] for i in cfg['cells']]
    cols = cfg['cols']
    models = []        # generator-side pool of models (mirrors execute's pool management)
    ops = []

    def cell():
        return g.choice(cells)

    def rows_n():
        return g.choice([0, 1, 1, 2, 2, 3] + [cfg['max_rows']] * 2)

    def spec_for(n, allow_bad=False):
        r = g.random()
        if r < 0.55:
            return {'list': [enc(cell()) for _ in range(n)]}
        if r < 0.65:
            return {'tuple': [enc(cell()) for _ in range(n)]}
        if r < 0.85:
            return {'scalar': enc(cell())}
        return {'list': [enc(cell())]}

    weights = {o: 1.0 for o in OPS if o not in cfg['off']}
    for o in ('setitem', 'mask', 'slice', 'derive', 'add', 'concat', 'inc', 'take'):
        if o in weights:
            weights[o] = 2.0
    if not cfg['faulty']:
        for o in ('setitem_reject', 'new_reject', 'update_reject'):
            weights.pop(o, None)
    if 'iter_hold' in weights:
        weights['iter_hold'] = 0.4
    names = sorted(weights)

    def pick_op():
        tot = sum(weights[o] for o in names)
        x = g.random() * tot
        for o in names:
            x -= weights[o]
            if x <= 0:
                return o
        return names[-1]

    tries = 0
    last_read = {}
    while len(ops) < cfg['n_ops'] and tries < cfg['n_ops'] * 6:
        tries += 1
        o = pick_op() if models else g.choice(['new_records', 'new_columns', 'new_rows'])
        op = _gen_op(o, g, f, cfg, cells, cols, models, rows_n, cell, spec_for)
        if op is None:
            continue
        if op['op'] in ('new_records', 'new_columns', 'new_rows') and cfg.get('subclass') and g.random() < 0.5:
            op['sub'] = True
        if op['op'] in ('setitem', 'setitem_from', 'update', 'update_from', 'delitem') and g.random() < 0.08:
            op['hold_first'] = g.choice([1, 1, 2])   # somebody starts reading the table row by row, stops half-way and keeps the iterator
        if cfg.get('reenter') and op['op'] in ('do', 'derive', 'inc_fn', 'apply') and g.random() < 0.5:
            op['reenter'] = True       # the user functions of this operation look at / derive from live tables while being called
        out = model_apply(op, models)
        if out[0] == 'skip':
            continue
        n_before = len(models)
        _pool_update(models, op, out, None)
        shifted = 1 if (out[0] in ('table', 'alias') and n_before == len(models)) else 0       # a full pool drops its oldest table
        if isinstance(op.get('t'), int):
            _LAST[0] = op['t'] - shifted
        ops.append(op)
        # the same question asked before and after a change: a read of table t is repeated right after t was changed in place
        if shifted:
            last_read = {t_ - 1: o_ for t_, o_ in last_read.items() if t_ >= 1}
        if op['op'] in READS and isinstance(op.get('t'), int):
            last_read[op['t'] - shifted] = op
        elif op['op'] in ('setitem', 'setitem_from', 'update', 'update_from', 'delitem', 'iadd', 'add_record') and op.get('t') in last_read and g.random() < 0.35:
            again = dict(last_read[op['t']], t=op['t'])
            again.pop('reenter', None)
            out2 = model_apply(again, models)
            if out2[0] != 'skip':
                n2 = len(models)
                _pool_update(models, again, out2, None)
                if out2[0] in ('table', 'alias') and n2 == len(models):
                    last_read = {t_ - 1: o_ for t_, o_ in last_read.items() if t_ >= 1}
                    _LAST[0] = (_LAST[0] - 1) if _LAST[0] else None
                ops.append(again)
    return {'prop': PROP, 'cfg': cfg, 'ops': ops}


READS = ('row', 'col', 'cols_tuple', 'slice', 'mask', 'take', 'project', 'inc', 'exc', 'inc_all', 'apply', 'sum_rows', 'copy')
_LAST = [None]      # generator state: the table the previous operation worked on (histories stay with one table for a while)


def _gen_op(o, g, f, cfg, cells, cols, models, rows_n, cell, spec_for):
    def slot():
        if cfg.get('locality') and _LAST[0] is not None and 0 <= _LAST[0] < len(models) and g.random() < cfg['locality']:
            return _LAST[0]
        return g.randrange(len(models))

    def slot_with_cols():
        c = [i for i, m in enumerate(models) if m.cols]
        return g.choice(c) if c else None

    faulty = cfg['faulty']
    raise_at = None
    if o == 'new_records':
        n = rows_n()
        shapes = g.random() < 0.4
        recs = []
        base = g.sample(cols, g.randint(1, len(cols)))
        for _ in range(n):
            ks = [c for c in base if not shapes or g.random() < 0.7] or [g.choice(base)]
            if g.random() < 0.5:
                g.shuffle(ks)          # records need not list their keys in one order
            recs.append([[c, enc(cell())] for c in ks])
        return {'op': o, 'records': recs}
    if o == 'new_columns':
        n = rows_n()
        cs = g.sample(cols, g.randint(1, len(cols)))
        items = []
        for c in cs:
            r = g.random()
            if r < 0.6:
                items.append([c, {'list': [enc(cell()) for _ in range(n)]}])
            elif r < 0.8:
                items.append([c, {'scalar': enc(cell())}])
            elif r < 0.9:
                items.append([c, {'list': [enc(cell())]}])
            else:
                items.append([c, {'tuple': [enc(cell()) for _ in range(n)]}])
        return {'op': o, 'items': items, 'via': g.choice(['dict', 'kw']) if not any(c in ('data', 'columns') for c, _ in items) else 'dict'}
    if o == 'new_rows':
        n = rows_n()
        hs = g.sample(cols, g.randint(1, len(cols)))
        return {'op': o, 'headers': hs, 'rows': [[enc(cell()) for _ in hs] for _ in range(n)], 'tuples': g.random() < 0.3}
    if o == 'new_empty':
        return {'op': o}
    if o == 'new_reject':
        cs = g.sample(cols, g.randint(2, len(cols))) if len(cols) >= 2 else None
        if not cs:
            return None
        n1 = g.choice([2, 3, 4])
        n2 = g.choice([x for x in (0, 2, 3, 5) if x != n1])
        items = [[cs[0], {'list': [enc(cell()) for _ in range(n1)]}], [cs[1], {'list': [enc(cell()) for _ in range(n2)]}]]
        for c in cs[2:]:
            items.append([c, {'scalar': enc(cell())}])
        g.shuffle(items)
        return {'op': o, 'items': items, 'via': g.choice(['dict', 'kw']) if not any(c in ('data', 'columns') for c, _ in items) else 'dict'}
    if not models:
        return None
    t = slot()
    m = models[t]
    n = m.n()
    if o in ('setitem', 'setitem_reject'):
        c = g.choice(cols)
        how = g.choice(['item', 'item', 'attr'])
        if o == 'setitem':
            return {'op': 'setitem', 't': t, 'col': c, 'val': spec_for(n), 'how': how}
        if not m.cols:
            return None
        bad = g.choice([x for x in (0, 2, 3, n + 1, n + 2, max(n - 1, 0)) if x != n and x != 1])
        return {'op': 'setitem_reject', 't': t, 'col': c, 'val': {g.choice(['list', 'tuple']): [enc(cell()) for _ in range(bad)]}, 'how': how}
    if o == 'setitem_from' and g.random() < 0.2:
        # d[c] = other.keys(): the column names of another table (the library's own list subclass) become cells
        cands = [u for u, mu in enumerate(models) if len(mu.cols) == 1]
        if cands:
            return {'op': o, 't': t, 'col': g.choice(cols), 'u': g.choice(cands), 'ucol': None, 'keys': True}
    if o == 'setitem_from':
        # d[c] = other[c2]: the value handed over IS the column list of another live table
        cands = [(u, c2) for u, mu in enumerate(models) for c2 in mu.cols if mu.n() in (n, 1) or not m.cols]
        if not cands:
            return None
        u, c2 = g.choice(cands)
        return {'op': o, 't': t, 'col': g.choice(cols), 'u': u, 'ucol': c2}
    if o == 'update_from':
        cands = [u for u, mu in enumerate(models) if mu.cols and (mu.n() in (n, 1) or not m.cols)]
        if not cands:
            return None
        return {'op': o, 't': t, 'u': g.choice(cands), 'via': g.choice(['update', 'call'])}
    if o == 'delitem':
        if not m.cols:
            return None
        if len(m.cols) >= 2 and g.random() < 0.2:
            return {'op': o, 't': t, 'col': g.sample(m.cols, 2), 'how': 'list'}
        return {'op': o, 't': t, 'col': g.choice(m.cols), 'how': g.choice(['item', 'attr'])}
    if o in ('update', 'update_reject') and not m.cols and len(cols) >= 2 and g.random() < 0.7:
        # a column-less table takes its length from the first column assigned; a scalar (or one-element list) listed first
        # fixes it at 1, and a longer column listed after it does not fit
        L = g.choice([2, 3])
        cs = g.sample(cols, g.randint(2, min(3, len(cols))))
        items = [[c, ({'list': [enc(cell()) for _ in range(L)]} if g.random() < 0.6 else {'scalar': enc(cell())})] for c in cs]
        return {'op': o, 't': t, 'items': items}
    if o in ('update', 'update_reject'):
        cs = g.sample(cols, g.randint(1, min(3, len(cols))))
        items = [[c, spec_for(n)] for c in cs]
        if o == 'update_reject':
            if not m.cols or len(items) < 2:
                return None
            bad = g.choice([x for x in (0, 2, 3, n + 1, n + 2) if x != n and x != 1])
            items[g.randrange(len(items))][1] = {'list': [enc(cell()) for _ in range(bad)]}      # fitting items may follow the bad one
        return {'op': o, 't': t, 'items': items}
    if o == 'row':
        if n == 0:
            return None
        return {'op': o, 't': t, 'i': g.randrange(-n, n)}
    if o == 'col':
        if not m.cols:
            return None
        return {'op': o, 't': t, 'col': g.choice(m.cols)}
    if o == 'cols_tuple':
        if not m.cols:
            return None
        return {'op': o, 't': t, 'cols': [g.choice(m.cols) for _ in range(g.choice([1, 2, 2, 3]))]}
    if o == 'slice':
        def b():
            return g.choice([None, None, 0, 1, 2, -1, -2, n, n + 2, -n - 1])
        return {'op': o, 't': t, 'start': b(), 'stop': b(), 'step': g.choice([None, None, 1, 2, -1, -2, 3])}
    if o == 'mask':
        if not m.cols:
            return None
        r = g.random()
        if r < 0.15:
            mask = [False] * n
        elif r < 0.3:
            mask = [True] * n
        else:
            mask = [g.random() < 0.5 for _ in range(n)]
        if n == 1 and g.random() < 0.5:
            return None
        return {'op': o, 't': t, 'mask': mask, 'as': g.choice([None, None, 'np']) if n >= 1 else None}
    if o == 'take':
        if not m.cols:
            return None
        if n == 0:
            return {'op': o, 't': t, 'idx': []}
        k = g.choice([0, 1, 2, 3, n])
        if g.random() < 0.2:
            # a range object as row selector: every start / stop / step a range can have, as long as each index exists
            cands = [(0, n, 1), (n - 1, -1, -1), (-n, 0, 1), (-1, -n - 1, -1), (0, n, 2), (-2, 0, 1), (n - 1, -1, -2), (1, n, 1), (-1, -3, -1)]
            a_, b_, c_ = g.choice(cands)
            idx = list(range(a_, b_, c_))
            if idx and all(-n <= i < n for i in idx):
                return {'op': o, 't': t, 'idx': idx, 'as': 'range', 'range': [a_, b_, c_]}
            return None
        return {'op': o, 't': t, 'idx': [g.randrange(-n, n) for _ in range(k)], 'as': g.choice([None, None, 'np'])}
    if o == 'project':
        if not m.cols:
            return None
        return {'op': o, 't': t, 'cols': g.sample(m.cols, g.randint(1, len(m.cols)))}
    if o == 'derive':
        targets = g.sample(cols, g.randint(1, min(3, len(cols))))
        avail = [c for c in m.cols if c not in targets]
        items = []
        ncall = 0
        for c in targets:
            r = g.random()
            if r < 0.3:
                items.append([c, 'const', spec_for(n) if g.random() < 0.5 else {'scalar': enc(cell())}])
            else:
                fn = g.choice(['is_none', 'typename', 'rep', 'str2', 'const7', 'ident'])
                ar = PURE[fn][0]
                if ar > len(avail):
                    fn, ar = 'const7', 0
                items.append([c, fn, g.sample(avail, ar)])
                ncall += 1
        r2 = g.random()
        if r2 < 0.2 and avail and len(cols) >= 2:
            # a chain: the second derived column is computed from the first
            t1, t2 = g.sample(cols, 2)
            av = [c for c in m.cols if c not in (t1, t2)]
            if av:
                items = [[t2, g.choice(['rep', 'typename', 'is_none']), [t1]], [t1, g.choice(['rep', 'ident', 'typename']), [g.choice(av)]]]
                ncall = 2
        elif r2 < 0.27 and len(m.cols) >= 2 and len(cols) >= 4:
            # three formulas in one call: a redefines an existing column, t1 reads that column, t2 reads t1
            a_, b_ = g.sample(m.cols, 2)
            fresh = [c for c in cols if c not in (a_, b_)]
            if len(fresh) >= 2:
                t1, t2 = g.sample(fresh, 2)
                items = [[t1, g.choice(['rep', 'typename']), [a_]], [t2, g.choice(['rep', 'is_none', 'typename']), [t1]], [a_, g.choice(['rep', 'typename']), [b_]]]
                g.shuffle(items)
                ncall = 3
        elif r2 < 0.38 and m.cols and len(cols) >= 2:
            # a constant (re)defines a column and, in the same call, a formula reads that column: the formula sees the constant
            a_ = g.choice(m.cols) if g.random() < 0.7 else g.choice(cols)
            t1 = g.choice([c for c in cols if c != a_])
            items = [[a_, 'const', spec_for(n) if g.random() < 0.6 else {'scalar': enc(cell())}], [t1, g.choice(['rep', 'typename', 'is_none', 'ident']), [a_]]]
            g.shuffle(items)
            ncall = 1
        elif r2 < 0.41 and m.cols:
            # a single callable that overwrites the column it reads
            c = g.choice(m.cols)
            items = [[c, g.choice(['rep', 'typename', 'is_none']), [c]]]
            ncall = 1
        if faulty and ncall and n and f.random() < 0.2:
            raise_at = f.randint(1, max(1, n * ncall))
        return {'op': o, 't': t, 'items': items, 'raise_at': raise_at}
    if o == 'rename':
        if not m.cols:
            return None
        olds = g.sample(m.cols, g.randint(1, min(2, len(m.cols))))
        free = [c for c in cols if c not in m.cols]
        g.shuffle(free)
        if len(free) < len(olds):
            return None
        r2 = g.random()
        if r2 > 0.93:
            # a rename that renames nothing (absent column, a column onto itself, the identity function): still a NEW table
            kind = g.choice(['absent', 'self', 'identity'])
            if kind == 'absent':
                absent = [c for c in cols if c not in m.cols]
                if not absent or len(absent) < 2:
                    return None
                return {'op': o, 't': t, 'map': [[absent[0], absent[1]]], 'via': 'rename', 'noop': True}
            if kind == 'self':
                c = g.choice(m.cols)
                return {'op': o, 't': t, 'map': [[c, c]], 'via': g.choice(['rename', 'relabel', 'dictarg']), 'noop': True}
            return {'op': o, 't': t, 'map': [], 'via': 'identity', 'noop': True}
        if r2 > 0.8 and len(m.cols) >= 2:
            # a swap / rotation / shift inside ONE call: a new name may be the old name of another renamed column
            k2 = g.randint(2, min(3, len(m.cols)))
            cs = g.sample(m.cols, k2)
            kind = g.choice(['rotate', 'rotate', 'shift'])
            if kind == 'rotate':
                mp = [[cs[i], cs[(i + 1) % k2]] for i in range(k2)]
            else:
                freec = [c for c in cols if c not in m.cols]
                if not freec:
                    return None
                mp = [[cs[i], cs[i + 1]] for i in range(k2 - 1)] + [[cs[-1], g.choice(freec)]]
            g.shuffle(mp)
            return {'op': o, 't': t, 'map': mp, 'via': g.choice(['rename', 'relabel'])}
        if r2 < 0.08 and all(len(c) < 6 for c in m.cols) and free:
            # an affix for every column and, in the same call, one column named individually (the individual name wins)
            form = g.choice(['suffix_kw', 'prefix_kw'])
            one = g.choice(m.cols)
            mp = [[c, free[0] if c == one else (c + '_s') if form == 'suffix_kw' else ('p_' + c)] for c in m.cols]
            return {'op': o, 't': t, 'map': mp, 'via': form, 'one': one}
        if r2 < 0.25 and all(len(c) < 6 for c in m.cols):
            form = g.choice(['suffix', 'prefix', 'callable'])
            mp = [[c, (c + '_s') if form == 'suffix' else ('p_' + c) if form == 'prefix' else (c + c)] for c in m.cols]
            return {'op': o, 't': t, 'map': mp, 'via': form}
        if r2 < 0.4 and len(free) >= len(m.cols):
            # every column gets a new name, given as a plain list in column order
            return {'op': o, 't': t, 'map': [[c, free[i]] for i, c in enumerate(m.cols)], 'via': 'namelist'}
        return {'op': o, 't': t, 'map': [[old, free[i]] for i, old in enumerate(olds)], 'via': g.choice(['rename', 'relabel', 'dictarg'])}
    if o == 'do':
        if not m.cols:
            return None
        cs = g.sample(m.cols, g.randint(1, min(3, len(m.cols))))
        fn = g.choice(['is_none', 'typename', 'rep', 'ident', 'str2'])
        other = None
        if fn == 'str2':
            rest = [c for c in m.cols if c not in cs] if g.random() < 0.5 else list(m.cols)
            if not rest:
                fn = 'rep'
            else:
                other = g.choice(rest)      # may be a column transformed earlier (or later) in this very call
        fn2 = g.choice(['rep', 'typename']) if (g.random() < 0.2 and fn != 'str2') else None
        if faulty and n and f.random() < 0.2:
            raise_at = f.randint(1, n * len(cs) * (2 if fn2 else 1))
        return {'op': o, 't': t, 'fn': fn, 'fn2': fn2, 'cols': cs, 'other': other, 'raise_at': raise_at, 'kwonly': bool(other is not None and g.random() < 0.4)}
    if o == 'minus':
        cs = g.sample(cols, g.randint(1, min(3, len(cols))))
        return {'op': o, 't': t, 'cols': cs, 'single': len(cs) == 1 and g.random() < 0.5}
    if o == 'copy':
        return {'op': o, 't': t}
    if o == 'add':
        return {'op': o, 't': t, 'u': slot()}
    if o == 'iadd':
        if g.random() < 0.5:
            return {'op': o, 't': t, 'u': slot()}
        base = g.sample(cols, g.randint(1, len(cols)))
        return {'op': o, 't': t, 'record': [[c, enc(cell())] for c in base]}
    if o == 'add_record':
        base = g.sample(cols, g.randint(1, len(cols)))
        return {'op': o, 't': t, 'record': [[c, enc(cell())] for c in base]}
    if o == 'add_records':
        recs = []
        for _ in range(g.choice([2, 2, 3])):
            base = g.sample(cols, g.randint(1, len(cols)))
            recs.append([[c, enc(cell())] for c in base])
        return {'op': o, 't': t, 'records': recs}
    if o == 'add_zero':
        return {'op': o, 't': t, 'z': g.choice([None, 0]), 'right': g.random() < 0.3}
    if o == 'concat':
        k = g.choice([1, 2, 2, 3, 4]) if g.random() < 0.9 else g.choice([8, 9, 10, 12, 17])
        return {'op': o, 'ts': [slot() for _ in range(k)], 'aslist': g.random() < 0.4}
    if o == 'sum_rows':
        return {'op': o, 't': t}
    if o in ('inc', 'exc'):
        if not m.cols:
            return None
        c = g.choice(m.cols)
        present = m.column(c)
        r = g.random()
        if r < 0.5 and present:
            v = g.choice(present)
        else:
            v = cell()
        if g.random() < 0.3:
            extra = [x for x in [g.choice(present) if present else cell(), cell()] if not _isnan(x) and x is not None]
            if not _isnan(v) and v is not None and extra:
                return {'op': o, 't': t, 'col': c, 'val': {'list': [enc(v)] + [enc(x) for x in extra]}}
        return {'op': o, 't': t, 'col': c, 'val': {'scalar': enc(v)}}
    if o == 'inc_dict':
        if not m.cols:
            return None
        c1 = g.choice(m.cols)
        kw = None
        rest = [c for c in m.cols if c != c1]
        if rest and g.random() < 0.6:
            c2 = g.choice(rest)
            vals2 = [v for v in m.column(c2) if v is not None and not _isnan(v)]
            kw = [c2, enc(g.choice(vals2) if vals2 and g.random() < 0.7 else 1)]
        vals1 = [v for v in m.column(c1) if v is not None and not _isnan(v)]
        # filter dict number k of the caller: created on first use, then reused as is
        return {'op': o, 't': t, 'k': g.randrange(2), 'col': c1, 'val': enc(g.choice(vals1) if vals1 and g.random() < 0.7 else 'x'), 'kw': kw, 'exc': g.random() < 0.4}
    if o == 'apply':
        if not m.cols:
            return None
        fn = g.choice(['is_none', 'typename', 'rep', 'str2'])
        ar = PURE[fn][0]
        if ar > len(m.cols):
            fn, ar = 'rep', 1
        ra = None
        if faulty and n and f.random() < 0.3:
            ra = f.randint(1, n)
        return {'op': o, 't': t, 'fn': fn, 'args': g.sample(m.cols, ar), 'raise_at': ra, 'kwform': g.choice([False, False, True, True, 'kwonly'])}
    if o == 'iter_hold':
        if not n or not m.cols:
            return None
        return {'op': o, 't': t, 'n': g.randint(1, n)}
    if o == 'edit_returned':
        if not m.cols:
            return None
        return {'op': o, 't': t, 'what': g.choice(['row', 'rows', 'keys', 'tuples']), 'i': g.randrange(-n, n) if n else 0, 'col': g.choice(m.cols)}
    if o == 'inc_all':
        return {'op': o, 't': t, 'exc': g.random() < 0.5}
    if o == 'inc_fn':
        if not m.cols:
            return None
        c = g.choice(m.cols)
        if faulty and n and f.random() < 0.25:
            raise_at = f.randint(1, n)
        return {'op': o, 't': t, 'col': c, 'neg': g.random() < 0.4, 'raise_at': raise_at}
    return None


# ----------------------------------------------------------------------------------------------
# model semantics.  returns ('table', M) | ('value', v) | ('mutate', slot) | ('alias', slot) |
#                           ('reject', slot or None) | ('raise', None) | ('skip',)
# ----------------------------------------------------------------------------------------------
def _broadcast(vals, n, has_cols):
    """list form -> column of the table, by the documented rule; None = does not fit"""
    if len(vals) == n or not has_cols:
        return list(vals)
    if len(vals) == 1:
        return list(vals) * n
    return None


def _will_raise(op, ncalls):
    ra = op.get('raise_at')
    return ra is not None and 1 <= ra <= ncalls


def model_apply(op, models):
    o = op['op']

    def get(t):
        return models[t] if isinstance(t, int) and 0 <= t < len(models) else None

    # tables double when concatenated with themselves; a history of 60 such operations is a performance test of the harness
    # (callbacks that re-enter the library cost O(rows) per cell), not of the property: results stay below MAX_ROWS rows
    if o in ('iadd', 'add', 'concat', 'sum_rows'):
        parts = [get(x) for x in ([op.get('t'), op.get('u')] if o in ('iadd', 'add') else op.get('ts', []))]
        if sum(x.n() for x in parts if x is not None) > MAX_ROWS:
            return ('skip',)
    if o == 'new_empty':
        return ('table', M())
    if o == 'new_records':
        recs = [[(c, dec(v)) for c, v in r] for r in op['records']]
        if any(len(r) == 0 for r in recs):
            return ('skip',)
        cols = []
        for r in recs:
            for c, _ in r:
                if c not in cols:
                    cols.append(c)
        rows = []
        for r in recs:
            d = dict(r)
            rows.append({c: d.get(c) for c in cols})
        return ('table', M(cols, rows))
    if o in ('new_columns', 'new_reject'):
        items = [(c, _as_values(spec)[1]) for c, spec in op['items']]
        if len({c for c, _ in items}) != len(items):
            return ('skip',)
        lens_ = {len(v) for _, v in items} - {1}
        if len(lens_) > 1:
            return ('reject', None)
        if o == 'new_reject':
            return ('skip',)
        n = list(lens_)[0] if lens_ else 1
        return ('table', M.from_columns([(c, v * n if len(v) == 1 else v) for c, v in items], n))
    if o == 'new_rows':
        hs = op['headers']
        if len(set(hs)) != len(hs) or not hs or any(len(r) != len(hs) for r in op['rows']):
            return ('skip',)
        rows = [{c: dec(v) for c, v in zip(hs, r)} for r in op['rows']]
        return ('table', M(hs, rows))
    if o == 'concat':
        ms = [get(t) for t in op['ts']]
        if not ms or any(m is None for m in ms):
            return ('skip',)
        if len(ms) == 1:
            return ('alias', op['ts'][0])
        return ('table', _concat(ms))
    m = get(op.get('t'))
    if m is None:
        return ('skip',)
    n = m.n()
    if o in ('setitem', 'setitem_reject'):
        vals = _as_values(op['val'])[1]
        col = _broadcast(vals, n, bool(m.cols))
        if col is None:
            return ('reject', op['t'])
        if o == 'setitem_reject':
            return ('skip',)
        new = m     # in place
        if op['col'] not in new.cols:
            new.cols.append(op['col'])
        if not new.rows and len(col) and len(new.cols) == 1:
            new.rows = [{} for _ in col]
        if len(new.rows) != len(col):
            return ('skip',)
        for r, v in zip(new.rows, col):
            r[op['col']] = v
        return ('mutate', op['t'])
    if o in ('setitem_from', 'update_from'):
        u = get(op.get('u'))
        if u is None:
            return ('skip',)
        if o == 'setitem_from' and op.get('keys'):
            if not u.cols:
                return ('skip',)
            # the order of several names is the table's column order, which is not part of the statement: one-column sources only
            return ('skip',) if len(u.cols) > 1 else _setitem_like(m, op, [(op['col'], list(u.cols))])
        elif o == 'setitem_from':
            if op['ucol'] not in u.cols:
                return ('skip',)
            items = [(op['col'], u.column(op['ucol']))]
            target = m
        else:
            if not u.cols:
                return ('skip',)
            items = [(c, u.column(c)) for c in u.cols]
            target = m if op.get('via') != 'call' else m.copy()
        trial = target.copy()
        for c, vals in items:
            col = _broadcast(list(vals), trial.n(), bool(trial.cols))
            if col is None:
                return ('skip',)
            if c not in trial.cols:
                trial.cols.append(c)
            if not trial.rows and len(col) and len(trial.cols) == 1:
                trial.rows = [{} for _ in col]
            if len(trial.rows) != len(col):
                return ('skip',)
            for r, v in zip(trial.rows, col):
                r[c] = v
        if o == 'update_from' and op.get('via') == 'call':
            return ('table', trial)           # d(**other): a new table
        if u is m and o == 'update_from':
            pass
        m.cols, m.rows = trial.cols, trial.rows
        return ('mutate', op['t'])
    if o == 'delitem':
        dcols = op['col'] if isinstance(op['col'], list) else [op['col']]
        if any(c not in m.cols for c in dcols) or len(set(dcols)) != len(dcols):
            return ('skip',)
        for c in dcols[:-1]:
            m.cols.remove(c)
            for r in m.rows:
                del r[c]
        op = dict(op, col=dcols[-1])
        m.cols.remove(op['col'])
        if not m.cols:
            m.rows = []
        else:
            for r in m.rows:
                del r[op['col']]
        return ('mutate', op['t'])
    if o in ('update', 'update_reject'):
        trial = m.copy()
        for c, spec in op['items']:
            vals = _as_values(spec)[1]
            col = _broadcast(vals, trial.n(), bool(trial.cols))
            if col is None:
                return ('reject', op['t']) if o == 'update_reject' else ('skip',)
            if c not in trial.cols:
                trial.cols.append(c)
            if not trial.rows and len(col) and len(trial.cols) == 1:
                trial.rows = [{} for _ in col]
            if len(trial.rows) != len(col):
                return ('skip',)
            for r, v in zip(trial.rows, col):
                r[c] = v
        if o == 'update_reject':
            return ('skip',)
        m.cols, m.rows = trial.cols, trial.rows
        return ('mutate', op['t'])
    if o == 'row':
        i = op['i']
        if not (-n <= i < n):
            return ('skip',)
        return ('value', dict(m.rows[i]))
    if o == 'col':
        if op['col'] not in m.cols:
            return ('skip',)
        return ('value', m.column(op['col']))
    if o == 'cols_tuple':
        if any(c not in m.cols for c in op['cols']):
            return ('skip',)
        return ('value', [tuple(r[c] for c in op['cols']) for r in m.rows])
    if o == 'slice':
        if op['step'] == 0:
            return ('skip',)
        s = slice(op['start'], op['stop'], op['step'])
        return ('table', M(m.cols, m.rows[s]))
    if o == 'mask':
        if not m.cols or len(op['mask']) != n:
            return ('skip',)
        return ('table', M(m.cols, [r for r, tf in zip(m.rows, op['mask']) if tf]))
    if o == 'take':
        if not m.cols or any(not (-n <= i < n) for i in op['idx']):
            return ('skip',)
        return ('table', M(m.cols, [m.rows[i] for i in op['idx']]))
    if o == 'project':
        cs = op['cols']
        if not cs or any(c not in m.cols for c in cs) or len(set(cs)) != len(cs):
            return ('skip',)
        return ('table', M(cs, [{c: r[c] for c in cs} for r in m.rows]))
    if o == 'derive':
        new = m.copy()
        targets = [it[0] for it in op['items']]
        if len(set(targets)) != len(targets):
            return ('skip',)
        # constants first (they are visible to the callables)
        for it in op['items']:
            if it[1] == 'const':
                vals = _as_values(it[2])[1]
                col = _broadcast(vals, new.n(), bool(new.cols))
                if col is None:
                    return ('skip',)
                if it[0] not in new.cols:
                    new.cols.append(it[0])
                if not new.rows and len(col) and len(new.cols) == 1:
                    new.rows = [{} for _ in col]
                if len(new.rows) != len(col):
                    return ('skip',)
                for r, v in zip(new.rows, col):
                    r[it[0]] = v
        calls = [it for it in op['items'] if it[1] != 'const']
        ctargets = [it[0] for it in calls]
        for it in calls:
            if len(it[2]) != PURE[it[1]][0] or len(set(it[2])) != len(it[2]):
                return ('skip',)
            if any(a not in new.cols and a not in ctargets for a in it[2]):
                return ('skip',)
            if len(calls) > 1 and it[0] in it[2]:
                return ('skip',)          # self reference among several callables: the library calls that circular
        if calls and not new.cols:
            return ('skip',)
        # a derived column may use another derived column of the same call: those it depends on are computed first
        order = []
        remaining = list(calls)
        while remaining:
            keys = {it[0] for it in remaining}
            if len(remaining) == 1:
                ready = remaining
            else:
                ready = [it for it in remaining if not (keys & set(it[2]))]
            if not ready:
                return ('skip',)          # circular
            order.extend(ready)
            remaining = [it for it in remaining if it not in ready]
        have = set(new.cols)
        for it in order:
            if any(a not in have for a in it[2]):
                return ('skip',)          # an argument that names a column which does not exist (yet)
            have.add(it[0])
        n2 = new.n()
        if _will_raise(op, n2 * len(calls)):
            return ('raise', None)
        for it in order:
            if any(a not in new.cols for a in it[2]):
                return ('skip',)
            fn = PURE[it[1]][1]
            vals = [fn(*[r[a] for a in it[2]]) for r in new.rows]
            if it[0] not in new.cols:
                new.cols.append(it[0])
            for r, v in zip(new.rows, vals):
                r[it[0]] = v
        return ('table', new)
    if o == 'rename' and op.get('noop'):
        mp = {a: b for a, b in op['map']}
        if any(a in m.cols and a != b for a, b in mp.items()) or any(b in m.cols and a != b for a, b in mp.items()):
            return ('skip',)
        return ('table', m.copy())
    if o == 'rename':
        mp = {a: b for a, b in op['map']}
        if any(a not in m.cols for a in mp) or len(set(mp.values())) != len(mp):
            return ('skip',)
        final = [mp.get(c, c) for c in m.cols]
        if len(set(final)) != len(final):
            return ('skip',)          # renaming onto a column that stays: outside the oracle
        if op.get('via') == 'namelist' and (set(mp) != set(m.cols) or len(m.cols) < 2):
            return ('skip',)
        if op.get('via') in ('suffix_kw', 'prefix_kw'):
            one = op.get('one')
            exp = {c: (c + '_s') if op['via'] == 'suffix_kw' else ('p_' + c) for c in m.cols}
            if one not in m.cols or one in ('data', 'columns', 'self') or any(mp.get(c) != exp[c] for c in m.cols if c != one) or set(mp) != set(m.cols):
                return ('skip',)
        if op.get('via') in ('suffix', 'prefix', 'callable'):
            exp = {c: (c + '_s') if op['via'] == 'suffix' else ('p_' + c) if op['via'] == 'prefix' else (c + c) for c in m.cols}
            if mp != exp:
                return ('skip',)
        cols = [mp.get(c, c) for c in m.cols]
        return ('table', M(cols, [{mp.get(c, c): v for c, v in r.items()} for r in m.rows]))
    if o == 'do':
        cs = op['cols']
        if not cs or any(c not in m.cols for c in cs) or len(set(cs)) != len(cs):
            return ('skip',)
        other = op.get('other')
        ar = PURE[op['fn']][0]
        if ar == 2 and (other is None or other not in m.cols):
            return ('skip',)
        if ar == 0:
            return ('skip',)
        fn2 = op.get('fn2')
        if fn2 is not None and (ar != 1 or PURE[fn2][0] != 1):
            return ('skip',)
        if _will_raise(op, n * len(cs) * (2 if fn2 else 1)):
            return ('raise', None)
        new = m.copy()
        fn = PURE[op['fn']][1]
        for c in cs:
            for r in new.rows:
                r[c] = fn(r[c], r[other]) if ar == 2 else fn(r[c])
            if fn2 is not None:
                for r in new.rows:
                    r[c] = PURE[fn2][1](r[c])
        return ('table', new)
    if o == 'minus':
        cs = op['cols']
        keep = [c for c in m.cols if c not in cs]
        return ('table', M(keep, [{c: r[c] for c in keep} for r in m.rows] if keep else []))
    if o == 'copy':
        return ('table', m.copy())
    if o == 'add':
        u = get(op.get('u'))
        if u is None:
            return ('skip',)
        return ('table', _concat([m, u]))
    if o == 'iadd':
        # d += other: the name d is rebound to the concatenation; every other table is unaffected
        if 'record' in op:
            rec = [(c, dec(v)) for c, v in op['record']]
            if not rec or len({c for c, _ in rec}) != len(rec):
                return ('skip',)
            other = M([c for c, _ in rec], [dict(rec)])
        else:
            other = get(op.get('u'))
            if other is None:
                return ('skip',)
        return ('rebind', op['t'], _concat([m, other]))
    if o == 'add_record':
        rec = [(c, dec(v)) for c, v in op['record']]
        if not rec or len({c for c, _ in rec}) != len(rec):
            return ('skip',)
        return ('table', _concat([m, M([c for c, _ in rec], [dict(rec)])]))
    if o == 'add_records':
        recs = [[(c, dec(v)) for c, v in r] for r in op['records']]
        if len(recs) < 2 or any(not r or len({c for c, _ in r}) != len(r) for r in recs):
            return ('skip',)
        return ('table', _concat([m] + [M([c for c, _ in r], [dict(r)]) for r in recs]))
    if o == 'add_zero':
        return ('alias', op['t'])
    if o == 'sum_rows':
        if n == 0:
            return ('table', M())
        return ('table', M(m.cols, m.rows))
    if o in ('inc', 'exc'):
        if op['col'] not in m.cols:
            return ('skip',)
        val = _as_values(op['val'])[0]
        if isinstance(val, list) and any(v is None or _isnan(v) for v in val):
            return ('skip',)
        hit = [_filter_match(r[op['col']], val) for r in m.rows]
        rows = [r for r, h in zip(m.rows, hit) if (h if o == 'inc' else not h)]
        return ('table', M(m.cols, rows))
    if o == 'inc_dict':
        # the effective filter is the caller's dict k AS THE CALLER BUILT IT (first use fixes its content) plus the keyword
        flt = FILTER_DICTS.setdefault(op['k'], {op['col']: dec(op['val'])})
        eff = dict(flt)
        if op.get('kw'):
            if op['kw'][0] in flt:
                return ('skip',)       # the same column in the dict and as a keyword: which one wins is not stated
            eff[op['kw'][0]] = dec(op['kw'][1])
        if any(c not in m.cols for c in eff):
            return ('skip',)
        hit = [all(_filter_match(r[c], v) for c, v in eff.items()) for r in m.rows]
        rows = [r for r, h in zip(m.rows, hit) if (not h if op.get('exc') else h)]
        return ('table', M(m.cols, rows))
    if o == 'iter_hold':
        if op['n'] > n:
            return ('skip',)
        return ('value', [dict(r) for r in m.rows[:op['n']]])
    if o == 'apply':
        if any(a not in m.cols for a in op['args']) or len(op['args']) != PURE[op['fn']][0] or len(set(op['args'])) != len(op['args']):
            return ('skip',)
        if _will_raise(op, n):
            return ('raise', None)
        fn = PURE[op['fn']][1]
        return ('value', [fn(*[r[a] for a in op['args']]) for r in m.rows])
    if o == 'edit_returned':
        if op['col'] not in m.cols or (op['what'] == 'row' and not (-n <= op['i'] < n)) or (op['what'] == 'row' and n == 0):
            return ('skip',)
        return ('value', None)           # nothing to compare: check_all sees whether any table noticed the edit
    if o == 'inc_all':
        return ('table', m.copy())       # no condition: every row, as a new table
    if o == 'inc_fn':
        if op['col'] not in m.cols:
            return ('skip',)
        if _will_raise(op, n):
            return ('raise', None)
        rows = [r for r in m.rows if ((r[op['col']] is None) != bool(op.get('neg')))]
        return ('table', M(m.cols, rows))
    return ('skip',)


def _setitem_like(m, op, items):
    trial = m.copy()
    for c, vals in items:
        col = _broadcast(list(vals), trial.n(), bool(trial.cols))
        if col is None:
            return ('skip',)
        if c not in trial.cols:
            trial.cols.append(c)
        if not trial.rows and len(col) and len(trial.cols) == 1:
            trial.rows = [{} for _ in col]
        if len(trial.rows) != len(col):
            return ('skip',)
        for r, v in zip(trial.rows, col):
            r[c] = v
    m.cols, m.rows = trial.cols, trial.rows
    return ('mutate', op['t'])


def _concat(ms):
    cols = []
    for m in ms:
        for c in m.cols:
            if c not in cols:
                cols.append(c)
    rows = []
    for m in ms:
        for r in m.rows:
            rows.append({c: r.get(c) for c in cols})
    return M(cols, rows)


def _pool_update(pool, op, out, real):
    """the same pool discipline on the generator side (models only) and in execute (model, real)"""
    kind = out[0]
    if kind == 'rebind':
        pool[out[1]] = out[2]
        return
    if kind in ('table', 'alias'):
        item = out[1] if kind == 'table' else pool[out[1]]
        if real is not None:
            item = (item, real) if kind == 'table' else pool[out[1]]
        if len(pool) >= POOL:
            pool.pop(0)
            if kind == 'alias':
                pass
        pool.append(item)


# ----------------------------------------------------------------------------------------------
# execution against the real dictable
# ----------------------------------------------------------------------------------------------
def execute(trace, ctx=None):
    from pyg_base import dictable
    res = Result()
    FILTER_DICTS.clear()
    REAL_FILTER_DICTS.clear()
    pool = []        # list of [model, real]
    del HELD[:]
    state = {'step': 0}

    def models():
        return [p[0] for p in pool]

    def check_table(m, d, k, who):
        cols = list(dict.keys(d))
        lists = [dict.__getitem__(d, c) for c in cols]
        if any(not isinstance(x, list) for x in lists):
            raise Violation('not-rectangular', '%s: a column is not a list after step %d (%s)' % (who, k, _opname(trace, k)), k)
        ls = {len(x) for x in lists}
        if len(ls) > 1:
            raise Violation('not-rectangular', '%s: column lengths %s differ after step %d (%s)' % (who, {c: len(x) for c, x in zip(cols, lists)}, k, _opname(trace, k)), k)
        if sorted(cols) != sorted(m.cols):
            raise Violation('columns-differ', '%s: columns %s, model %s after step %d (%s)' % (who, sorted(cols), sorted(m.cols), k, _opname(trace, k)), k)
        try:
            n = len(d)
            shape = d.shape
            rows = list(d)
        except Exception as e:
            raise Violation('unexpected-exception', '%s: len/shape/iteration raised %s: %s' % (who, type(e).__name__, e), k)
        if n != m.n() or shape != (m.n(), len(m.cols)):
            raise Violation('length-differs', '%s: len %s shape %s, model has %d rows x %d columns after step %d (%s)'
                            % (who, n, shape, m.n(), len(m.cols), k, _opname(trace, k)), k)
        if len(rows) != m.n():
            raise Violation('iteration-differs', '%s: iteration yields %d rows, model %d' % (who, len(rows), m.n()), k)
        for i, (r, mr) in enumerate(zip(rows, m.rows)):
            if sorted(r.keys()) != sorted(mr.keys()) or any(not same(r[c], mr[c]) for c in mr):
                raise Violation('rows-differ', '%s: row %d is %r, model %r after step %d (%s)' % (who, i, dict(r), mr, k, _opname(trace, k)), k)
        for c in cols:
            colv = d[c]
            for i in range(m.n()):
                if not same(d[i][c], colv[i]):
                    raise Violation('row-col-disagree', '%s: d[%d][%r] != d[%r][%d]' % (who, i, c, c, i), k)

    def check_all(k):
        for kk, fd in REAL_FILTER_DICTS.items():
            if not _value_same(fd, FILTER_DICTS[kk]):
                raise Violation('argument-altered', 'the filter dict handed to inc/exc was %r and is now %r after step %d (%s)' % (FILTER_DICTS[kk], fd, k, _opname(trace, k)), k)
        for j, (m, d) in enumerate(pool):
            check_table(m, d, k, 'table#%d' % j)
            res.state_keys.add('%s|%d|%s' % (','.join(sorted(m.cols)), min(m.n(), 7), _types(m)))

    def lib(fn, what, k):
        try:
            return ('ok', fn())
        except SimCallbackError as e:
            return ('cb', e)
        except Exception as e:
            return ('exc', e)

    try:
        for k, op in enumerate(trace['ops']):
            state['step'] = k
            ms = models()
            snapshot = [m.copy() for m in ms]
            out = model_apply(op, ms)          # mutators change the model in place here
            if out[0] == 'skip':
                # restore (a skipped mutator must not have half-changed the model)
                for p, s in zip(pool, snapshot):
                    p[0].cols, p[0].rows = s.cols, s.rows
                continue
            reals = [p[1] for p in pool]
            ids_before = [[id(dict.__getitem__(d, c)) for c in dict.keys(d)] for d in reals]
            REENTER['fn'] = _make_reenter(list(reals), res) if op.get('reenter') else None
            del LEAKS[:]
            if op.get('hold_first') and isinstance(op.get('t'), int) and 0 <= op['t'] < len(reals):
                try:
                    it_ = iter(reals[op['t']])
                    for _ in range(op['hold_first']):
                        next(it_)
                    HELD.append(it_)
                    res.probe('half-read-iterator-kept-across-a-mutation')
                except StopIteration:
                    pass
            try:
                status, val = lib(lambda: real_apply(op, reals, dictable), op['op'], k)
            finally:
                REENTER['fn'] = None
            if LEAKS:
                raise Violation('callback-arguments', '%s: a **kw formula was handed the keywords %s, which are not the other columns of its table' % (_short(op), LEAKS[0]), k)
            kind = out[0]
            res.stat('op:' + op['op'])
            # ---------------- expected rejection ----------------
            if kind == 'reject':
                res.fault('reject')
                if status == 'ok':
                    raise Violation('ill-fitting-accepted', '%s with ill-fitting lengths was accepted: %s' % (op['op'], _short(op)), k)
                if op['op'] in ('setitem_reject', 'update_reject') and not isinstance(val, ValueError):
                    raise Violation('wrong-rejection', '%s raised %s instead of ValueError: %s' % (op['op'], type(val).__name__, val), k)
                if op['op'] == 'update_reject':
                    # relaxed, narrowly: update is not atomic, so after the rejection the table must be rectangular, keep every old
                    # column, and hold in every column either its old value or the (fitting) new value; nothing else.  The model then
                    # adopts whichever of the two the table holds.
                    t = op['t']
                    d = reals[t]
                    m_old = snapshot[t]
                    lists = {c: dict.__getitem__(d, c) for c in dict.keys(d)}
                    if any(not isinstance(x, list) for x in lists.values()) or len({len(x) for x in lists.values()}) > 1:
                        raise Violation('not-rectangular', 'after a rejected update columns have lengths %s' % {c: len(x) for c, x in lists.items()}, k)
                    n_now = len(next(iter(lists.values()))) if lists else 0
                    news = {}
                    probe_m = m_old.copy()
                    for c, spec in op['items']:
                        vals_ = _as_values(spec)[1]
                        if _broadcast(vals_, probe_m.n(), bool(probe_m.cols)) is None:
                            break                # update assigns item by item: nothing after the item that raised is applied
                        news[c] = vals_
                        if c not in probe_m.cols:
                            probe_m.cols.append(c)
                            if not probe_m.rows and len(vals_) and len(probe_m.cols) == 1:
                                probe_m.rows = [{} for _ in vals_]
                    for c in m_old.cols:
                        if c not in lists:
                            raise Violation('columns-differ', 'a rejected update removed column %r' % c, k)
                    if m_old.cols and n_now != m_old.n():
                        raise Violation('length-differs', 'a rejected update changed the number of rows from %d to %d' % (m_old.n(), n_now), k)
                    for c, x in lists.items():
                        ok_old = c in m_old.cols and len(x) == m_old.n() and all(same(a, b) for a, b in zip(x, m_old.column(c)))
                        nv = news.get(c)
                        ok_new = nv is not None and (all(same(a, b) for a, b in zip(x, nv)) and len(x) == len(nv)
                                                     or (len(nv) == 1 and all(same(a, nv[0]) for a in x)))
                        if not (ok_old or ok_new):
                            raise Violation('rows-differ', 'after a rejected update column %r holds %r: neither its old value nor the new one' % (c, x), k)
                    pool[t][0].cols = list(lists.keys())
                    pool[t][0].rows = [{c: lists[c][i] for c in lists} for i in range(n_now)]
                elif op['op'] == 'setitem_reject':
                    ids_after = [[id(dict.__getitem__(d, c)) for c in dict.keys(d)] for d in reals]
                    if ids_after != ids_before:
                        raise Violation('rejected-assignment-changed-table', 'a rejected assignment replaced column lists', k)
                    res.probe('rejected-assignment')
                check_all(k)
                continue
            # ---------------- injected callback failure ----------------
            if kind == 'raise':
                res.fault('callback_raise')
                if status == 'ok':
                    res.probe('callback-exception-swallowed')
                elif status == 'exc':
                    raise Violation('unexpected-exception', '%s: the injected callback error surfaced as %s: %s' % (op['op'], type(val).__name__, str(val)[:200]), k)
                check_all(k)           # no table in the pool may have changed
                continue
            if status == 'cb':
                raise Violation('unexpected-exception', '%s: callback error although none was injected' % op['op'], k)
            if status == 'exc':
                raise Violation('unexpected-exception', '%s raised %s: %s   op=%s' % (op['op'], type(val).__name__, str(val)[:200], _short(op)), k)
            # ---------------- normal outcomes ----------------
            if kind == 'value':
                exp = out[1]
                ok = _value_same(val, exp)
                if not ok:
                    raise Violation('value-differs', '%s returned %r, model %r' % (_short(op), val, exp), k)
            elif kind in ('table', 'alias'):
                if not isinstance(val, dictable):
                    raise Violation('result-type', '%s returned %s, not a dictable' % (op['op'], type(val).__name__), k)
                same_as = [j for j, d in enumerate(reals) if d is val]
                if kind == 'alias':
                    # d + 0, d + None and concat of a single table: returning the operand itself is accepted
                    if same_as:
                        res.probe('result-is-operand(accepted no-op)')
                        item = pool[same_as[0]]
                    else:
                        item = [pool[out[1]][0].copy(), val]
                else:
                    if same_as:
                        raise Violation('result-is-operand', '%s returned its operand table#%d itself instead of a new table' % (_short(op), same_as[0]), k)
                    item = [out[1], val]
                    if op['op'] in SAME_CLASS and isinstance(op.get('t'), int) and 0 <= op['t'] < len(reals) and type(val) is not type(reals[op['t']]):
                        # a table of the user's own table class stays one through every selection and transformation
                        raise Violation('result-class', '%s on a %s returned a %s' % (_short(op), type(reals[op['t']]).__name__, type(val).__name__), k)
                    if op['op'] == 'project' and len(set(op['cols'])) == len(op['cols']) and list(dict.keys(val)) != list(op['cols']):
                        # the model's records are {c: row[c] for c in requested}: positional renaming of the projection relies on it
                        raise Violation('projection-column-order', '%s: columns come back as %s' % (_short(op), list(dict.keys(val))), k)
                    if out[1].n() == 0 and out[1].cols:
                        res.probe('empty-result-keeps-columns')
                    shared = [j for j, d in enumerate(reals) for c in dict.keys(d) for c2 in dict.keys(val)
                              if dict.__getitem__(d, c) is dict.__getitem__(val, c2) and len(dict.__getitem__(d, c)) > 0]
                    if shared:
                        res.probe('operand-shares-list-with-result')
                if len(pool) >= POOL:
                    pool.pop(0)
                pool.append(item)
                _probes(op, out, res, ms)
            elif kind == 'rebind':
                # the slot now names the result (old object or new, the language allows both); the old object, if it is
                # still referenced by another slot, must be unchanged -- check_all sees to that
                if not isinstance(val, dictable):
                    raise Violation('result-type', '+= produced %s' % type(val).__name__, k)
                t = out[1]
                others_same_obj = [j for j, d in enumerate(reals) if d is reals[t] and j != t]
                pool[t] = [out[2], val]
                if others_same_obj and val is reals[t]:
                    # the same object is named by another slot too (accepted alias): an in-place += then legitimately shows there
                    for j in others_same_obj:
                        pool[j] = pool[t]
            elif kind == 'mutate':
                if op['op'] == 'setitem' and not snapshot[op['t']].cols:
                    res.probe('assignment-on-columnless-table')
                if op['op'] == 'setitem' and snapshot[op['t']].n() == 0 and snapshot[op['t']].cols:
                    res.probe('assignment-on-0-row-table')
            check_all(k)
        res.steps = len(trace['ops'])
    except Violation as v:
        res.violation = {'cls': v.cls, 'msg': v.msg, 'step': v.step}
    res.obs = [[sorted(m.cols), m.n()] for m, _ in pool] + [res.violation and res.violation['cls']]
    res.nontrivial = res.steps >= 3 and (not trace['cfg']['faulty'] or bool(res.faults))
    prev = None
    for op in trace['ops']:
        if prev is not None:
            res.sets.setdefault('op-bigrams', set()).add(prev + '>' + op['op'])
        prev = op['op']
    return res


def _probes(op, out, res, ms):
    o = op['op']
    if o in ('add', 'concat', 'add_record') and out[0] == 'table':
        if o == 'add':
            a, b = ms[op['t']], ms[op['u']]
            if a.cols and b.cols and not (set(a.cols) & set(b.cols)):
                res.probe('concat-with-disjoint-columns')
            if set(a.cols) != set(b.cols):
                res.probe('concat-fills-absent-with-None')
    if o == 'new_columns':
        vals = [_as_values(s)[1] for _, s in op['items']]
        if any(len(v) == 0 for v in vals) and any(len(v) == 1 for v in vals):
            res.probe('broadcast-to-0-rows')
        if any(len(v) == 1 for v in vals) and any(len(v) > 1 for v in vals):
            res.probe('scalar-broadcast')


def _types(m):
    ts = set()
    for r in m.rows:
        for v in r.values():
            ts.add(type(v).__name__[0])
    return ''.join(sorted(ts))


def _value_same(a, b):
    if isinstance(b, dict):
        return isinstance(a, dict) and sorted(a.keys()) == sorted(b.keys()) and all(same(a[k], b[k]) for k in b)
    if isinstance(b, list):
        return isinstance(a, list) and len(a) == len(b) and all(_value_same(x, y) for x, y in zip(a, b))
    if isinstance(b, tuple):
        return isinstance(a, tuple) and len(a) == len(b) and all(same(x, y) for x, y in zip(a, b))
    return same(a, b)


def _opname(trace, k):
    return trace['ops'][k]['op'] if 0 <= k < len(trace['ops']) else '?'


def _short(op):
    s = repr(op)
    return s if len(s) < 300 else s[:300] + '...'


def real_apply(op, reals, dictable):
    o = op['op']
    if o == 'new_empty':
        return dictable()
    if op.get('sub') and o in ('new_records', 'new_columns', 'new_rows'):
        dictable = _SUB.setdefault(dictable, type('SimTable', (dictable,), {}))      # the user's own table class (nothing overridden)
    if o == 'new_records':
        return dictable([{c: dec(v) for c, v in r} for r in op['records']])
    if o in ('new_columns', 'new_reject'):
        items = [(c, _as_values(spec)[0]) for c, spec in op['items']]
        if op.get('via') == 'kw' and not any(c in ('data', 'columns') for c, _ in items):
            return dictable(**dict(items))
        return dictable(dict(items))
    if o == 'new_rows':
        rows = [[dec(v) for v in r] for r in op['rows']]
        if op.get('tuples'):
            rows = [tuple(r) for r in rows]
        return dictable(rows, list(op['headers'])) if len(rows) % 2 else dictable(data=rows, columns=list(op['headers']))
    if o == 'concat':
        ts = [reals[t] for t in op['ts']]
        return dictable.concat(ts) if op.get('aslist') else dictable.concat(*ts)
    d = reals[op['t']]
    if o in ('setitem', 'setitem_reject'):
        v = _as_values(op['val'])[0]
        if op.get('how') == 'attr':
            setattr(d, op['col'], v)
        else:
            d[op['col']] = v
        return None
    if o == 'setitem_from' and op.get('keys'):
        d[op['col']] = reals[op['u']].keys()
        return None
    if o == 'setitem_from':
        d[op['col']] = reals[op['u']][op['ucol']]
        return None
    if o == 'update_from':
        if op.get('via') == 'call':
            return d(**reals[op['u']])
        d.update(reals[op['u']])
        return None
    if o == 'delitem':
        if op.get('how') == 'attr':
            delattr(d, op['col'])
        elif isinstance(op['col'], list):
            del d[list(op['col'])]
        else:
            del d[op['col']]
        return None
    if o in ('update', 'update_reject'):
        d.update({c: _as_values(spec)[0] for c, spec in op['items']})
        return None
    if o == 'row':
        return d[op['i']]
    if o == 'col':
        return d[op['col']]
    if o == 'cols_tuple':
        return d[tuple(op['cols'])]
    if o == 'slice':
        return d[slice(op['start'], op['stop'], op['step'])]
    if o == 'mask':
        if op.get('as') == 'np' and len(op['mask']):
            import numpy as np
            return d[np.array(op['mask'], dtype=bool)]
        return d[list(op['mask'])]
    if o == 'take':
        if op.get('as') == 'np' and len(op['idx']):
            import numpy as np
            return d[np.array(op['idx'], dtype=int)]
        if op.get('as') == 'range' and op.get('range') and list(range(*op['range'])) == list(op['idx']):
            return d[range(*op['range'])]
        return d[list(op['idx'])]
    if o == 'project':
        return d[list(op['cols'])]
    if o == 'derive':
        counter = [0]
        kw = {}
        for it in op['items']:
            if it[1] == 'const':
                kw[it[0]] = _as_values(it[2])[0]
            else:
                kw[it[0]] = make_callable(it[1], it[2], counter, op.get('raise_at'))
        return d(**kw)
    if o == 'rename':
        mp = {a: b for a, b in op['map']}
        via = op.get('via')
        if via == 'suffix':
            return d.relabel('_s')
        if via == 'prefix':
            return d.rename('p_')
        if via in ('suffix_kw', 'prefix_kw'):
            return d.relabel('_s' if via == 'suffix_kw' else 'p_', **{op['one']: mp[op['one']]})
        if via == 'identity':
            return d.relabel(lambda key: key)
        if via == 'callable':
            return d.relabel(lambda key: key + key)
        if via == 'dictarg':
            return d.relabel(dict(mp))
        if via == 'namelist':
            return d.relabel([mp[c] for c in dict.keys(d)]) if len(mp) != 1 else d.relabel(*[mp[c] for c in dict.keys(d)])
        return d.rename(**mp) if via != 'relabel' else d.relabel(**mp)
    if o == 'do':
        counter = [0]
        args = ['value'] + ([op['other']] if PURE[op['fn']][0] == 2 else [])
        fn = make_callable(op['fn'], args, counter, op.get('raise_at'), 'kwonly' if op.get('kwonly') else None)
        if op.get('fn2'):
            return d.do([fn, make_callable(op['fn2'], ['value'], counter, op.get('raise_at'))], *op['cols'])
        return d.do(fn, *op['cols'])
    if o == 'minus':
        return d - (op['cols'][0] if op.get('single') else list(op['cols']))
    if o == 'copy':
        return d.copy()
    if o == 'add':
        return d + reals[op['u']]
    if o == 'iadd':
        other = {c: dec(v) for c, v in op['record']} if 'record' in op else reals[op['u']]
        d += other
        return d
    if o == 'add_record':
        return d + {c: dec(v) for c, v in op['record']}
    if o == 'add_records':
        return d + [{c: dec(v) for c, v in r} for r in op['records']]
    if o == 'add_zero':
        return (op['z'] + d) if op.get('right') and op['z'] is not None else d + op['z']
    if o == 'sum_rows':
        return sum(list(d), dictable())
    if o in ('inc', 'exc'):
        v = _as_values(op['val'])[0]
        return getattr(d, o)(**{op['col']: v})
    if o == 'inc_dict':
        flt = REAL_FILTER_DICTS.setdefault(op['k'], dict(FILTER_DICTS[op['k']]))
        kw = {op['kw'][0]: dec(op['kw'][1])} if op.get('kw') else {}
        return d.exc(flt, **kw) if op.get('exc') else d.inc(flt, **kw)
    if o == 'apply':
        counter = [0]
        extra = (set(dict.keys(d)) - set(op['args'])) if op.get('kwform') is True else 'kwonly' if op.get('kwform') == 'kwonly' else None
        return d[make_callable(op['fn'], op['args'], counter, op.get('raise_at'), extra)]
    if o == 'iter_hold':
        it = iter(d)
        HELD.append(it)         # kept alive, never finished: the table must not care
        return [dict(next(it)) for _ in range(op['n'])]
    if o == 'edit_returned':
        w = op['what']
        if w == 'row':
            r = d[op['i']]
            r[op['col']] = 'edited-by-caller'
            r['zz'] = 1
        elif w == 'rows':
            rows = list(d)
            for r in rows:
                r[op['col']] = 'edited-by-caller'
            del rows[:]
        elif w == 'keys':
            ks = d.keys()
            ks.append('zz')
        else:
            ts = d[(op['col'],)]
            ts.append(('edited',))
        return None
    if o == 'inc_all':
        return d.exc() if op.get('exc') else d.inc()
    if o == 'inc_fn':
        counter = [0]
        neg = bool(op.get('neg'))
        fn = make_callable('is_none', [op['col']], counter, op.get('raise_at'))
        if neg:
            return d.exc(fn)
        return d.inc(fn)
    raise ValueError(o)


# ----------------------------------------------------------------------------------------------
TABLE_MAKERS = {'inc_dict', 'add_records', 'new_records', 'new_columns', 'new_rows', 'slice', 'mask', 'take', 'project', 'derive', 'rename', 'do', 'minus', 'copy',
                'add', 'add_record', 'add_zero', 'concat', 'sum_rows', 'inc', 'exc', 'inc_fn', 'inc_all'}


def shrink_candidates(trace):
    # operands are named by pool position, so dropping an operation that adds a table would renumber everything after
    # it: such operations are neutralised (replaced by the creation of an empty table) instead of dropped
    for k, op in enumerate(trace['ops']):
        if op['op'] in TABLE_MAKERS and not (op['op'] == 'update_from' and op.get('via') != 'call'):
            t = _copy.deepcopy(trace); t['ops'][k] = {'op': 'new_empty'}; yield t
    for k, op in enumerate(trace['ops']):
        if op.get('raise_at') is not None:
            t = _copy.deepcopy(trace); t['ops'][k]['raise_at'] = None; yield t
        for key in ('records', 'rows', 'items', 'cols', 'ts', 'idx', 'mask'):
            v = op.get(key)
            if isinstance(v, list) and len(v) > 1:
                for j in range(len(v)):
                    t = _copy.deepcopy(trace); del t['ops'][k][key][j]; yield t
        if isinstance(op.get('val'), dict) and 'list' in op['val'] and len(op['val']['list']) > 1:
            t = _copy.deepcopy(trace); t['ops'][k]['val'] = {'scalar': op['val']['list'][0]}; yield t
        if op['op'] == 'new_records':
            for i, r in enumerate(op['records']):
                if len(r) > 1:
                    for j in range(len(r)):
                        t = _copy.deepcopy(trace); del t['ops'][k]['records'][i][j]; yield t


def size(trace):
    return sum(50 for op in trace['ops'] if op['op'] != 'new_empty') + len(trace['ops']) + len(repr(trace['ops']))


def signature(trace, violation):
    return violation['cls']


PROBES = ['empty-result-keeps-columns', 'broadcast-to-0-rows', 'scalar-broadcast', 'concat-with-disjoint-columns', 'concat-fills-absent-with-None',
          'assignment-on-columnless-table', 'assignment-on-0-row-table', 'operand-shares-list-with-result', 'rejected-assignment',
          'result-is-operand(accepted no-op)']
TIERS = {'quick': {'runs': 20000, 'wallcap': 50}, 'thorough': {'runs': 1200000, 'wallcap': 800}}
COMPONENTS = {
    'real': ['pyg_base.dictable (constructor, __setitem__/__delitem__/update, __getitem__ in all its forms, __call__, rename/relabel, do, __sub__, copy, '
             '__add__/concat, inc/exc)', 'pyg_base._zip lens/zipper', 'pyg_base Dict / dictattr base classes', 'pyg_base.kwargs_support (callable filters)'],
    'stub': ['user callables (named pure functions, optionally armed to raise at their k-th invocation)', 'the operation scheduler'],
}
RULE = ('one case = one seeded history of 5-40 public table operations over a pool of up to 6 live tables sharing column lists, every live table compared '
        'with its list-of-records model after every step; non-trivial = at least 3 executed operations and, in a fault configuration, at least one fired '
        'fault (rejection or injected callback failure); distinct = distinct digest of (trace, observations)')
ASSUMPTIONS = ['cells are None, ints, floats (incl. NaN), strings (incl. empty), datetimes; column names a..f (never the constructor parameter names data/columns)',
               'column ORDER is not part of the statement and is never compared (after a concatenation of differently shaped tables it is set-iteration order)',
               'd + 0, d + None and concat of a single table may return the operand itself; every other table-returning operation must return a new object',
               'deliberately outside the oracle: length-1 boolean masks (broadcast), rows+headers with extra keywords, renaming onto an existing column, if_none, '
               'mutating a column list obtained through d[c], empty records, ragged rows']
