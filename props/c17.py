"""C17: bitemporal store -- reading as of T sees exactly what had been published by T.

World: one store value threaded through bi_merge, publishers that stamp their versions from the
simulated wall clock (explicitly with Bi(v, now) or implicitly with bi_merge(store, v) whose default
stamp is 'now' and reads the clock through the seam), duplicate delivery of earlier messages, clock
stalls (several publications share one stamp), and as-of readers before/on/between/after the stamps.

Oracles: (1) per-date single-copy log model, (2) no look-ahead over the recorded history (the
implementation compared with itself), (3) redelivery of a version that is in the store changes no read.
"""
import datetime
import math

from sim.core import Violation, Result, dec, enc
from sim.seams import SimClock

PROP = 'C17'
HASH_SENSITIVE = False
NAN = float('nan')
TICKS = [0, 0.000001, 1, 3600, 86400, 30 * 86400]
ORIGINS = ['2021-03-03T10:00:00', '2020-02-29T23:59:59.999999', '2022-01-01T00:00:00', '2021-12-31T12:00:00', '2023-06-15T09:30:00',
           '2024-02-28T00:00:00.000001', '2024-02-29T00:00:00', '2019-12-31T23:59:59', '2025-01-31T23:59:59.999999', '2022-03-27T01:30:00',
           '2022-10-30T01:30:00', '2023-04-30T00:00:00', '2021-07-04T12:00:00.500000', '2020-01-01T00:00:00.000001', '2026-06-30T18:45:10']


def _iso(t):
    return t.isoformat()


# ----------------------------------------------------------------------------------------------
# generation (pure; keeps its own copy of the clock so read times can be placed around stamps)
# ----------------------------------------------------------------------------------------------
def generate(st):
    sw, g, f = st.swarm, st.gen, st.fault
    big = sw.random() < 0.3
    cfg = {
        'n_dates': sw.choice([17, 20, 30, 40, 60] + ([120] if getattr(st, 'deep', False) else [])) if big else sw.choice([1, 2, 3, 3, 4, 5, 6, 8]),
        'n_ops': sw.choice([4, 6, 8, 10, 12]) if big else sw.choice([5, 8, 10, 14, 18, 24] + ([40] if getattr(st, 'deep', False) else [])),
        'values': sorted(sw.sample([1.0, 2.0, 3.0, 4.0, 7.5], sw.randint(2, 4)) + ([1.0000001, 1.0000002] if sw.random() < 0.25 else []) + (sw.sample([-9999.0, -999.0, -1.0, 0.0, 99999.0], 2) if sw.random() < 0.25 else [])),      # revisions may be tiny; values may look like placeholders
        'p_nan': sw.choice([0.0, 0.1, 0.3, 0.5]),
        'p_partial': sw.choice([0.0, 0.3, 0.6]),
        'ticks': sorted(set(sw.sample(TICKS, sw.randint(2, len(TICKS))))),
        'faulty': sw.random() < 0.6,
        'origin': sw.choice(ORIGINS),
        'modes': sorted(sw.sample(['explicit', 'implicit'], sw.randint(1, 2))),
        'ints': sw.random() < 0.15,
        'named': sw.random() < 0.25,
        'daily_obs': sw.random() < 0.8,
        'index_name': sw.choice([None, None, None, 'date', 'obs', 'mixed']),
        'unordered': sw.random() < 0.3,        # a version need not list its observation dates in ascending order
        'stamp_offset': sw.choice([0, 0, 0, 0, 3600, 86400, 300 * 86400]),     # publishers may stamp ahead of the clock
        'ints_first': sw.choice([1, 2, 99]),     # with 'ints': only the first publication(s) are integer series, revisions need not be whole
        'ns_stamps': sw.random() < 0.08,
        'obs_base': sw.choice(['past', 'past', 'past', 'straddle', 'future']),     # where the observation dates lie relative to the stamps
        'mirror': sw.random() < 0.25,          # a second, independent store receives every version right after the first
        'branching': sw.random() < 0.3,        # a second consumer keeps an earlier store object and catches up later
    }
    if cfg['stamp_offset']:
        cfg['modes'] = ['explicit']
    if getattr(st, 'deep', False) and sw.random() < 0.02:
        # thorough tier only: a store of a few thousand rows (size thresholds in the library, if any, lie far above the quick tier)
        cfg.update({'n_dates': sw.choice([700, 1100]), 'n_ops': 8, 'p_partial': 0.0, 'p_nan': 0.3, 'span_patches': True})
    if not cfg['faulty']:
        cfg['ticks'] = [t for t in cfg['ticks'] if t > 0] or [1]
    now = datetime.datetime.fromisoformat(cfg['origin'])
    stamps = []            # stamp of every publication so far (in order)
    ops = []
    n_pub = 0

    def version():
        n = cfg['n_dates']
        if cfg.get('span_patches') and n_pub >= 1:
            # a long store is patched over a short contiguous stretch of dates
            w = g.choice([3, 10, 40])
            lo = g.randrange(0, n - w)
            ids = list(range(lo, lo + w))
        else:
            ids = [i for i in range(n) if g.random() >= cfg['p_partial']] or [g.randrange(n)]
        vals = []
        for i in ids:
            if cfg['ints'] and (cfg['p_nan'] == 0.0 or cfg.get('ints_first', 99) < 99) and n_pub < cfg.get('ints_first', 99):
                vals.append([i, int(g.choice(cfg['values']))])        # whole numbers, published as an integer series
            elif cfg['ints'] and cfg.get('ints_first', 99) < 99 and g.random() < 0.5:
                vals.append([i, enc(g.choice([2.5, 7.5, 100.25, 3.75]))])     # ... later revised to values that are not whole
            else:
                vals.append([i, enc(NAN) if g.random() < cfg['p_nan'] else enc(g.choice(cfg['values']))])
        if cfg.get('unordered') and g.random() < 0.6:
            g.shuffle(vals)
        return vals

    def read_op():
        kinds = ['live', 'after']
        if stamps:
            kinds += ['stamp', 'stamp', 'between', 'before']
        k = g.choice(kinds)
        if k == 'live':
            T = now
        elif k == 'after':
            T = now + datetime.timedelta(days=g.choice([1, 400]))
        elif k == 'before':
            T = stamps[0] - datetime.timedelta(microseconds=g.choice([1, 10 ** 6]))
        elif k == 'stamp':
            T = g.choice(stamps)
        else:
            uniq = sorted(set(stamps))
            j = g.randrange(len(uniq))
            lo = uniq[j]
            hi = uniq[j + 1] if j + 1 < len(uniq) else now + datetime.timedelta(seconds=1)
            T = lo + (hi - lo) / 2 if hi > lo else lo
        return {'op': 'read', 'T': _iso(T), 'what': g.choice([-1, -1, -1, 0]), 'kind': k}

    if sw.random() < 0.12 and not cfg['stamp_offset']:
        # the store starts from a plain (un-stamped) old series: bi_merge(old, new, asof=now, existing_data=<earlier stamp>)
        back = g.choice([1, 3600, 86400, 40 * 86400])
        ops.append({'op': 'start_from_plain', 'old': version(), 'new': version(), 'back': back})
        stamps.append(now - datetime.timedelta(seconds=back))
        stamps.append(now)
        n_pub += 2
        ops.append({'op': 'tick', 'd': 1})
        now = now + datetime.timedelta(seconds=1)
    for _ in range(cfg['n_ops']):
        r = g.random()
        if r < 0.25 or not stamps and r < 0.5:
            d = g.choice(cfg['ticks'])
            ops.append({'op': 'tick', 'd': d})
            now = now + datetime.timedelta(seconds=d)
        elif r < 0.65:
            mode = g.choice(cfg['modes'])
            if g.random() < 0.15:
                vs = [version() for _ in range(g.choice([2, 2, 3]))]
                if g.random() < 0.5 and len(vs) == 2 and ops and stamps:
                    pass
                ops.append({'op': 'publish_many', 'versions': vs, 'plain': bool(g.random() < 0.5 and not cfg['stamp_offset'])})
                for _ in vs:
                    stamps.append(now + datetime.timedelta(seconds=cfg['stamp_offset']))
                    n_pub += 1
            else:
                ops.append({'op': 'publish', 'mode': mode, 'vals': version(), 'named': bool(cfg['named'] and g.random() < 0.5)})
                stamps.append(now + datetime.timedelta(seconds=cfg['stamp_offset']))
                n_pub += 1
            if g.random() < 0.5:
                ops.append(read_op())
            # a zero tick between two publications is the clock_stall fault; otherwise time passes
            if not (cfg['faulty'] and f.random() < 0.35):
                d = g.choice([t for t in cfg['ticks'] if t > 0] or [1])
                ops.append({'op': 'tick', 'd': d})
                now = now + datetime.timedelta(seconds=d)
        elif r < 0.69 and any(o_.get('plain') for o_ in ops):
            # the caller publishes the SAME list object of plain series once more, at the current time
            ks = [j for j, o_ in enumerate(ops) if o_.get('plain')]
            src = g.choice(ks)
            ops.append({'op': 'republish_list', 'of': src})
            for _ in ops[src]['versions']:
                stamps.append(now)
                n_pub += 1
        elif r < 0.695 and n_pub:
            ops.append({'op': 'publish_swapped', 'a': g.randrange(1000), 'b': g.randrange(1000)})
            stamps.append(now + datetime.timedelta(seconds=cfg['stamp_offset']))
            n_pub += 1
        elif r < 0.71 and cfg['faulty'] and n_pub:
            # fault: a malformed version (its stamp column holds text); the merge raises, the caller keeps the old store
            ops.append({'op': 'bad_merge', 'vals': version()})
        elif r < 0.75 and cfg['faulty'] and n_pub:
            ops.append({'op': 'redeliver', 'k': f.randrange(n_pub)})
            if g.random() < 0.5:
                ops.append(read_op())
        elif r < 0.77 and n_pub and cfg.get('branching'):
            ops.append({'op': 'snapshot'} if g.random() < 0.5 else {'op': 'branch', 'resnap': g.random() < 0.5})
        elif r < 0.8:
            ops.append({'op': 'bump', 'bump': g.choice([0, 1, '1b', '-1b', '1w', '1m']), 'vals': version()})
        else:
            ops.append(read_op())
    if cfg.get('branching'):
        ops.append({'op': 'branch'})
    ops.append({'op': 'sweep'})
    return {'prop': PROP, 'cfg': cfg, 'ops': ops}


# ----------------------------------------------------------------------------------------------
# the reference model: per observation date, the log of (stamp, sequence, value)
# ----------------------------------------------------------------------------------------------
class Model:
    def __init__(self):
        self.log = {}      # date index -> list of (stamp, seq, value)
        self.seq = 0

    def publish(self, stamp, vals):
        self.seq += 1
        for i, v in vals:
            self.log.setdefault(i, []).append((stamp, self.seq, v))

    def read_last(self, T):
        out = {}
        for i, entries in self.log.items():
            es = sorted([e for e in entries if T is None or e[0] <= T], key=lambda e: (e[0], e[1]))
            if not es:
                continue
            val = NAN
            for e in es:
                if not _isnan(e[2]):
                    val = float(e[2])
            out[i] = val
        return out

    def read_first(self, T):
        """date -> set of acceptable values (as a list; NaN encoded as None)"""
        out = {}
        for i, entries in self.log.items():
            es = [e for e in entries if T is None or e[0] <= T]
            if not es:
                continue
            s0 = min(e[0] for e in es)
            out[i] = [None if _isnan(e[2]) else float(e[2]) for e in entries if e[0] == s0]
        return out

    def stamps(self):
        return sorted({e[0] for es in self.log.values() for e in es})


def _isnan(v):
    return isinstance(v, float) and math.isnan(v)


def _eqv(a, b):
    if _isnan(a) or _isnan(b):
        return _isnan(a) and _isnan(b)
    return float(a) == float(b)


# ----------------------------------------------------------------------------------------------
# execution against the real code
# ----------------------------------------------------------------------------------------------
def execute(trace, ctx=None):
    import pandas as pd
    from pyg_base import Bi, bi_merge, bi_read
    res = Result()
    cfg = trace['cfg']
    n = cfg['n_dates']
    origin = datetime.datetime.fromisoformat(cfg['origin'])
    SimClock.reset(origin)
    base = datetime.datetime(2019, 1, 1)
    if cfg.get('obs_base') == 'straddle':
        # a forward-dated series (a dividend or expiry schedule): observation dates on both sides of the publication stamps
        base = datetime.datetime(origin.year, origin.month, origin.day) - datetime.timedelta(days=2 * (1 if cfg.get('daily_obs', True) else 7))
        res.probe('observation-dates-straddle-the-stamps')
    elif cfg.get('obs_base') == 'future':
        base = datetime.datetime(2041, 1, 1)
        res.probe('observation-dates-after-every-stamp')
    step_days = 1 if cfg.get('daily_obs', True) else 7
    dates = [base + datetime.timedelta(days=i * step_days) for i in range(max(n, 1) + 64)]
    model = Model()
    store = None
    messages = []          # every published Bi, for redelivery
    merge_log = []         # every version merged into the store, in order (redeliveries included)
    snap = {}              # a consumer that kept an EARLIER store object: {'store':..., 'at': len(merge_log)}
    caller_lists = {}      # op index -> (the caller's list object of plain series, its versions)
    live_reads = []        # (T, op index, result dict) for the no-look-ahead invariant
    pub_stamps_after = []  # (op index, stamp) of every publish/redelivery
    state = {'step': 0, 'reads': 0}

    def series(vals, named=False):
        idx = [dates[i] for i, _ in vals]
        data = [dec(v) for _, v in vals]
        if all(isinstance(x, int) for x in data) and data:
            s = pd.Series(data, idx, dtype='int64')
        else:
            s = pd.Series([float(x) for x in data], idx, dtype='float64')
        if named:
            s.name = 'px'
        iname = cfg.get('index_name')
        if iname == 'mixed':
            state['series_made'] = state.get('series_made', 0) + 1
            iname = 'date' if state['series_made'] % 2 else None
        if iname:
            s.index.name = iname
            res.probe('named-index')
        return s

    mirror = {'store': None}
    ns_mode = bool(cfg.get('ns_stamps')) and not cfg.get('stamp_offset')

    def cur_stamp():
        st_ = SimClock.now + datetime.timedelta(seconds=cfg.get('stamp_offset', 0))
        if ns_mode:
            # publishers stamp with pandas Timestamps at nanosecond resolution: two stamps may fall inside one microsecond
            state['pubs'] = state.get('pubs', 0) + 1
            st_ = pd.Timestamp(st_) + pd.Timedelta(nanoseconds=[100, 200, 200, 900][state['pubs'] % 4])
            if state.get('last_ns') is not None and st_ < state['last_ns']:
                st_ = state['last_ns']          # publication stamps never decrease (the property's precondition)
            state['last_ns'] = st_
            res.probe('nanosecond-stamps')
        return st_

    def logged(msg):
        merge_log.append(msg)
        if cfg.get('mirror'):
            # an independent second store is fed the same versions, in alternation with the first
            mirror['store'] = lib(lambda: bi_merge(mirror['store'], msg), 'bi_merge(second store, same version)')

    def lib(fn, what):
        try:
            return fn()
        except Exception as e:
            raise Violation('unexpected-exception', '%s raised %s: %s' % (what, type(e).__name__, str(e)[:200]), state['step'])

    def do_read(T, what, reenter_T=None):
        state['reads'] += 1
        if reenter_T is not None:
            inner_ = []

            def last_(v):
                # the documented callable form of `what`; this one looks something up in the same store while it is being called
                if not inner_:
                    inner_.append(bi_read(store, asof=reenter_T, what=-1))
                return v.iloc[-1]
            what = last_
            res.probe('what-callback-reads-the-store')
        Tl = T                     # the form the reader passes the as-of time in: datetime, pandas Timestamp or numpy datetime64
        if T is None:
            res.probe('read-without-asof')
        elif state['reads'] % 5 == 3:
            Tl = pd.Timestamp(T)
            res.probe('asof-as-Timestamp')
        elif state['reads'] % 5 == 4 and not (isinstance(T, pd.Timestamp) and T.nanosecond):
            import numpy as np
            Tl = np.datetime64(T)
            res.probe('asof-as-datetime64')
        r = lib(lambda: bi_read(store, asof=Tl, what=what), 'bi_read(asof=%r, what=%s)' % (Tl, what))
        if not isinstance(r, pd.Series):
            raise Violation('read-shape', 'bi_read of a series store returned %s' % type(r).__name__, state['step'])
        if not r.index.is_unique:
            raise Violation('read-shape', 'bi_read returned duplicate observation dates', state['step'])
        out = {}
        for d, v in zip(r.index, r.values):
            d = pd.Timestamp(d).to_pydatetime()
            i = (d - base).days // step_days
            out[i] = float(v)
        if list(r.index) != sorted(r.index):
            raise Violation('read-shape', 'bi_read result is not sorted by observation date', state['step'])
        try:
            r.iloc[:] = -12345.0          # the answer is the reader's to scribble on; store and later reads must not notice
        except Exception:
            pass
        return out

    def check_read(T, what, tag):
        re_T = None
        if what == -1 and T is not None and state['reads'] % 7 == 5 and model.stamps() and store is not None and len(store):
            re_T = model.stamps()[0]
        got = do_read(T, what, reenter_T=re_T)
        if re_T is not None:
            state['pending_plain'] = re_T
        if what == -1:
            exp = model.read_last(T)
            if set(got) != set(exp):
                extra = sorted(set(got) - set(exp))
                missing = sorted(set(exp) - set(got))
                cls = 'look-ahead-row' if extra else 'missing-row'
                raise Violation(cls, '%s read asof %s: rows for dates %s not published by then / rows missing for %s'
                                % (tag, T, extra, missing), state['step'])
            for i in sorted(exp):
                if not _eqv(got[i], exp[i]):
                    cls = _classify(model, i, T, got[i])
                    raise Violation(cls, '%s read asof %s date#%d: got %r, model says %r (log %s)'
                                    % (tag, T, i, got[i], exp[i], [(str(s), q, v) for s, q, v in model.log[i]]), state['step'])
        else:
            exp = model.read_first(T)
            if set(got) != set(exp):
                raise Violation('first-value-rows', '%s read what=0 asof %s: rows %s expected %s' % (tag, T, sorted(got), sorted(exp)), state['step'])
            for i in sorted(exp):
                g = None if _isnan(got[i]) else got[i]
                if g not in exp[i]:
                    raise Violation('first-value', '%s read what=0 asof %s date#%d: got %r, first published %r (log %s)'
                                    % (tag, T, i, got[i], exp[i], [(str(s), q, v) for s, q, v in model.log[i]]), state['step'])
        if re_T is not None and state.pop('pending_plain', None) is not None:
            check_read(re_T, -1, 'plain read after a read whose `what` callback read the store as of that time')
        return got

    def read_points():
        pts = []
        ss = model.stamps()
        if not ss:
            return [SimClock.now]
        pts.append(ss[0] - datetime.timedelta(microseconds=1))
        for a in range(len(ss)):
            pts.append(ss[a])
            hi = ss[a + 1] if a + 1 < len(ss) else ss[a] + datetime.timedelta(seconds=2)
            pts.append(ss[a] + (hi - ss[a]) / 2)
        pts.append(ss[-1] + datetime.timedelta(days=1000))
        return pts

    def all_reads():
        return [(T, w, do_read(T, w)) for T in read_points() for w in (-1, 0)]

    def after_publication(stamp):
        pub_stamps_after.append((state['step'], stamp))
        rows = len(store) if store is not None else 0
        if rows >= 17:
            res.probe('store>=17-rows')
        res.state_keys.add('rows:%d' % min(rows, 99))

    def lookahead_invariant():
        for T, k, snap in live_reads:
            later = [s for (j, s) in pub_stamps_after if j > k]
            if any(s <= T for s in later):
                continue
            got = do_read(T, -1)
            if set(got) != set(snap) or any(not _eqv(got[i], snap[i]) for i in snap):
                raise Violation('look-ahead', 'a read as of %s taken at step %d returned %s; after later-stamped publications the same '
                                'as-of read returns %s' % (T, k, _fmt(snap), _fmt(got)), state['step'])
            res.stat('lookahead-rechecks')

    try:
        for k, op in enumerate(trace['ops']):
            state['step'] = k
            kind = op['op']
            if kind == 'tick':
                d = float(op['d'])
                if d == 0:
                    res.fault('clock_stall')
                elif d >= 30 * 86400:
                    res.fault('clock_jump_fwd')
                SimClock.advance(datetime.timedelta(seconds=d))
            elif kind == 'publish':
                vals = [(i, dec(v)) for i, v in op['vals'] if i < n]
                if not vals:
                    continue
                stamp = cur_stamp()
                if cfg.get('stamp_offset'):
                    res.probe('stamp-ahead-of-clock')
                s = series(op['vals'] if all(i < n for i, _ in op['vals']) else [[i, v] for i, v in op['vals'] if i < n], op.get('named', False))
                if op['mode'] == 'explicit' or store is None or cfg.get('stamp_offset') or ns_mode:
                    # the first version has to be stamped explicitly: bi_merge(None, plain) would stamp it too, exercise both
                    if op['mode'] == 'implicit' and not cfg.get('stamp_offset') and not ns_mode:
                        new_store = lib(lambda: bi_merge(None, s), 'bi_merge(None, series)')
                        res.probe('implicit-now-stamp')
                        msg = new_store
                    elif len(op['vals']) % 3 == 0:
                        # the un-stamped series and its stamp handed over together (also as the very first publication)
                        new_store = lib(lambda: bi_merge(store, s, asof=stamp), 'bi_merge(store, series, asof=stamp)')
                        res.probe('plain-series-with-asof' + ('-first' if store is None else ''))
                        msg = lib(lambda: Bi(s, stamp), 'Bi(series, stamp)')
                    else:
                        msg = lib(lambda: Bi(s, stamp), 'Bi(series, stamp)')
                        new_store = lib(lambda: bi_merge(store, msg), 'bi_merge')
                else:
                    reads_before = SimClock.reads
                    new_store = lib(lambda: bi_merge(store, s), 'bi_merge(store, series)')
                    if SimClock.reads == reads_before:
                        raise Violation('clock-not-read', 'bi_merge(store, plain series) did not read the clock for its stamp', k)
                    res.probe('implicit-now-stamp')
                    msg = lib(lambda: Bi(s, stamp), 'Bi(series, stamp)')
                if op.get('named'):
                    res.probe('named-series')
                prev_stamps = model.stamps()
                if prev_stamps and stamp == prev_stamps[-1]:
                    res.probe('same-stamp-publication')
                for i, v in vals:
                    if i in model.log:
                        cur = model.read_last(stamp).get(i, NAN)
                        if _isnan(v) and not _isnan(cur):
                            res.probe('nan-does-not-override')
                        if not _isnan(v) and not _isnan(cur) and float(v) != cur:
                            if any(e[0] == stamp for e in model.log[i]):
                                res.probe('same-stamp-override')
                            if any((not _isnan(e[2])) and float(e[2]) == float(v) for e in model.log[i]):
                                res.probe('revert-to-earlier-value')
                    elif model.log:
                        res.probe('date-first-published-later')
                model.publish(stamp, vals)
                messages.append((msg, stamp, vals))
                logged(messages[-1][0])
                store = new_store
                after_publication(stamp)
                _check_store(store, model, k)
            elif kind == 'start_from_plain':
                if store is not None:
                    continue
                olds = [(i, dec(v)) for i, v in op['old'] if i < n]
                news = [(i, dec(v)) for i, v in op['new'] if i < n]
                if not olds or not news:
                    continue
                t1 = SimClock.now
                t0 = t1 - datetime.timedelta(seconds=op['back'])
                so = series([[i, v] for i, v in op['old'] if i < n])
                sn = series([[i, v] for i, v in op['new'] if i < n])
                store = lib(lambda: bi_merge(so, sn, asof=t1, existing_data=t0), 'bi_merge(plain old, plain new, asof=t1, existing_data=t0)')
                res.probe('store-started-from-plain-old-data')
                for stamp, vals, ser in ((t0, olds, so), (t1, news, sn)):
                    model.publish(stamp, vals)
                    messages.append((lib(lambda ser=ser, stamp=stamp: Bi(ser, stamp), 'Bi'), stamp, vals))
                    logged(messages[-1][0])
                    after_publication(stamp)
                _check_store(store, model, k)
            elif kind == 'publish_many':
                stamp = cur_stamp()
                versions = []
                for vs in op['versions']:
                    vals = [(i, dec(v)) for i, v in vs if i < n]
                    if vals:
                        versions.append(([[i, v] for i, v in vs if i < n], vals))
                if not versions:
                    continue
                if op.get('plain') and not cfg.get('stamp_offset'):
                    plain_list = [series(raw) for raw, _ in versions]       # the caller's own list of un-stamped series
                    caller_lists[k] = (plain_list, versions)
                    store = lib(lambda: bi_merge(store, plain_list, asof=stamp), 'bi_merge(store, [plain series], asof=stamp)')
                    bis = [lib(lambda raw=raw: Bi(series(raw), stamp), 'Bi(series, stamp)') for raw, _ in versions]
                    res.probe('caller-owned-list-of-plain-series')
                else:
                    bis = [lib(lambda raw=raw: Bi(series(raw), stamp), 'Bi(series, stamp)') for raw, _ in versions]
                    store = lib(lambda: bi_merge(store, bis), 'bi_merge(store, [versions])')
                res.probe('several-versions-merged-in-one-call')
                for (raw, vals), b in zip(versions, bis):
                    for i, v in vals:
                        if i in model.log and any(e[0] == stamp for e in model.log[i]):
                            cur = model.read_last(stamp).get(i, NAN)
                            if not _isnan(v) and not _isnan(cur) and float(v) != cur:
                                res.probe('same-stamp-override')
                    model.publish(stamp, vals)
                    messages.append((b, stamp, vals))
                    logged(messages[-1][0])
                    after_publication(stamp)
                _check_store(store, model, k)
            elif kind == 'republish_list':
                if op['of'] not in caller_lists:
                    continue
                plain_list, versions = caller_lists[op['of']]
                stamp = SimClock.now
                if model.stamps() and stamp < model.stamps()[-1]:
                    continue
                store = lib(lambda: bi_merge(store, plain_list, asof=stamp), 'bi_merge(store, same list again, asof=later stamp)')
                res.probe('same-list-object-published-again')
                for raw, vals in versions:
                    model.publish(stamp, vals)
                    messages.append((lib(lambda raw=raw: Bi(series(raw), stamp), 'Bi'), stamp, vals))
                    logged(messages[-1][0])
                    after_publication(stamp)
                _check_store(store, model, k)
            elif kind == 'publish_swapped':
                # a publisher puts two swapped observations right: the new version holds the same values as the store does
                # today, two of them exchanged
                if store is None:
                    continue
                stamp = cur_stamp()
                if model.stamps() and stamp < model.stamps()[-1]:
                    continue
                cur = model.read_last(stamp)
                ids = sorted(i for i, v in cur.items() if not _isnan(v))
                if len(ids) < 2:
                    continue
                i1, i2 = ids[op['a'] % len(ids)], ids[op['b'] % len(ids)]
                if cur[i1] == cur[i2]:
                    continue
                vals = [(i, cur[i2] if i == i1 else cur[i1] if i == i2 else cur[i]) for i in ids]
                raw = [[i, enc(v)] for i, v in vals]
                msg = lib(lambda: Bi(series(raw), stamp), 'Bi(series, stamp)')
                store = lib(lambda: bi_merge(store, msg), 'bi_merge(store, correction)')
                res.probe('correction-swapping-two-held-values')
                model.publish(stamp, vals)
                messages.append((msg, stamp, vals))
                logged(messages[-1][0])
                after_publication(stamp)
                _check_store(store, model, k)
            elif kind == 'bad_merge':
                if store is None:
                    continue
                vals = [[i, v] for i, v in op['vals'] if i < n]
                if not vals:
                    continue
                bad = Bi(series(vals), SimClock.now)
                bad['updated'] = ['not-a-stamp'] * len(bad)
                try:
                    bi_merge(store, bad)
                except Exception:
                    res.fault('merge_raises')
                else:
                    res.stat('malformed-version-accepted')
                # the store the caller holds is the one from before; everything that follows must behave as if nothing happened
            elif kind == 'redeliver':
                if not messages:
                    continue
                msg, stamp, vals = messages[op['k'] % len(messages)]
                in_store = all(_isnan(v) or _eqv(model.read_last(stamp).get(i, NAN), v) for i, v in vals)
                if not in_store and stamp < model.stamps()[-1]:
                    # a version that a same-stamp successor had overridden is no longer in the store; re-merging it is a
                    # NEW publication, and with a stamp older than the latest one it breaks the property's precondition
                    # (non-decreasing stamps), so nothing can be asserted: not executed
                    res.stat('redelivery-skipped-precondition')
                    continue
                before = all_reads() if in_store else None
                store = lib(lambda: bi_merge(store, msg), 'bi_merge(store, redelivered)')
                logged(msg)
                res.fault('dup_delivery')
                model.publish(stamp, vals)
                after_publication(stamp)
                _check_store(store, model, k)
                if in_store:
                    res.probe('redelivery-of-version-in-store')
                    after = all_reads()
                    for (T, w, a), (_, _, b) in zip(before, after):
                        if set(a) != set(b) or any(not _eqv(a[i], b[i]) for i in a):
                            raise Violation('redelivery-changed-read', 'redelivering a version that is in the store changed the read '
                                            '(asof %s, what=%d): %s -> %s' % (T, w, _fmt(a), _fmt(b)), k)
                else:
                    res.probe('redelivery-of-overridden-version')
            elif kind == 'read':
                if store is None:
                    continue
                T = datetime.datetime.fromisoformat(op['T'])
                got = check_read(T, op['what'], op.get('kind', ''))
                res.state_keys.add('read:%s:%d:%d' % (op.get('kind'), op['what'], min(len(model.stamps()), 6)))
                if op.get('kind') == 'live' and T == SimClock.now and op['what'] == -1:
                    live_reads.append((T, k, got))
                if op.get('kind') == 'between':
                    res.probe('read-strictly-between-stamps')
                if op.get('kind') == 'before':
                    res.probe('read-before-first-stamp')
            elif kind == 'bump':
                vals = [[i, v] for i, v in op['vals'] if i < n]
                if not vals:
                    continue
                s = series(vals)
                try:
                    b = Bi(s, op['bump'])
                except Exception:
                    # per-row bump stamps are outside the statement of C17 (a bump that maps two observation
                    # dates onto one stamp date is rejected by the library); only the cap "no stamp after now" is checked
                    res.stat('bump-rejected')
                    continue
                late = [str(u) for u in b['updated'] if pd.Timestamp(u).to_pydatetime() > SimClock.now]
                if late:
                    raise Violation('stamp-in-future', 'Bi(series, %r) produced stamps %s later than now=%s' % (op['bump'], late[:3], SimClock.now), k)
                res.probe('bump-stamp-capped-at-now')
            elif kind == 'snapshot':
                if store is not None:
                    snap['store'], snap['at'] = store, len(merge_log)
                    res.probe('earlier-store-kept')
            elif kind == 'branch':
                # a second consumer kept an earlier store object and now catches up: it merges, in order, everything that was
                # published since into ITS store.  Its reads must be those of the same history (the model)
                if 'store' not in snap or store is None or snap['at'] >= len(merge_log):
                    continue
                alt = snap['store']
                for m_ in merge_log[snap['at']:]:
                    alt = lib(lambda: bi_merge(alt, m_), 'bi_merge(earlier store, later version)')
                main = store
                store = alt
                try:
                    _check_store(store, model, k)
                    for T in read_points():
                        for w in (-1, 0):
                            check_read(T, w, 'second consumer catching up from an earlier store')
                finally:
                    store = main
                res.probe('second-consumer-caught-up')
                if op.get('resnap'):
                    snap['store'], snap['at'] = alt, len(merge_log)
            elif kind == 'sweep':
                if store is None:
                    continue
                if k % 2:
                    # "everything, whenever it was published" is asked first; the as-of reads that follow must not notice
                    for w in (0, -1):
                        check_read(None, w, 'sweep(no asof)')
                for T in read_points():
                    for w in (-1, 0):
                        check_read(T, w, 'sweep')
                lookahead_invariant()
                if cfg.get('mirror') and mirror['store'] is not None:
                    main = store
                    store = mirror['store']
                    try:
                        _check_store(store, model, k)
                        for T in read_points():
                            for w in (-1, 0):
                                check_read(T, w, 'second store fed the same versions in alternation')
                    finally:
                        store = main
                    res.probe('second-store-fed-in-alternation')
        res.steps = len(trace['ops'])
    except Violation as v:
        res.violation = {'cls': v.cls, 'msg': v.msg, 'step': v.step}
    res.sim_time = SimClock.elapsed()
    stamps = model.stamps()
    ties = sum(1 for a in range(len(pub_stamps_after) - 1) if pub_stamps_after[a][1] == pub_stamps_after[a + 1][1])
    res.obs = [len(stamps), ties, state['reads'], res.violation and res.violation['cls'],
               sorted((i, len(v)) for i, v in model.log.items())[:8]]
    res.state_keys.add('hist:pubs%d:ties%d:dup%d:nan%d' % (min(len(pub_stamps_after), 9), min(ties, 4), min(res.faults.get('dup_delivery', 0), 3),
                                                      int(any(_isnan(e[2]) for es in model.log.values() for e in es))))
    res.nontrivial = len(pub_stamps_after) >= 2 and state['reads'] >= 2 and (not cfg['faulty'] or bool(res.faults))
    return res


def _check_store(store, model, k):
    """structural invariant of the store after every merge: at most one row per (date, stamp)"""
    if store is None:
        return
    import pandas as pd
    if not isinstance(store, pd.DataFrame):
        raise Violation('store-shape', 'bi_merge returned a %s without stamps' % type(store).__name__, k)
    if 'updated' not in store.columns:
        raise Violation('store-shape', 'merged store lost its stamp column', k)
    pairs = list(zip(store.index, store['updated']))
    if len(pairs) != len(set(pairs)):
        raise Violation('store-shape', 'merged store holds two rows for one (date, stamp)', k)


def _classify(model, i, T, got):
    """names the clause a wrong what=-1 value contradicts"""
    entries = sorted([e for e in model.log[i]], key=lambda e: (e[0], e[1]))
    vis = [e for e in entries if e[0] <= T]
    later = [e for e in entries if e[0] > T]
    if _isnan(got) and any(not _isnan(e[2]) for e in vis):
        return 'nan-overrode-value'
    if any((not _isnan(e[2])) and _eqv(e[2], got) for e in later) and not any((not _isnan(e[2])) and _eqv(e[2], got) for e in vis):
        return 'look-ahead-value'
    if vis and vis[-1][0] == max(e[0] for e in vis) and sum(1 for e in vis if e[0] == vis[-1][0]) > 1:
        return 'same-stamp-order'
    return 'stale-or-wrong-value'


def _fmt(d):
    return '{%s}' % ', '.join('%d:%s' % (i, d[i]) for i in sorted(d))


# ----------------------------------------------------------------------------------------------
def shrink_candidates(trace):
    import copy
    cfg = trace['cfg']
    # fewer observation dates
    n = cfg['n_dates']
    used = sorted({i for op in trace['ops'] if 'vals' in op for i, _ in op['vals']})
    for m in (n // 2, n - 1):
        if 1 <= m < n:
            t = copy.deepcopy(trace)
            t['cfg']['n_dates'] = m
            for op in t['ops']:
                if 'vals' in op:
                    op['vals'] = [[i, v] for i, v in op['vals'] if i < m]
            yield t
    # drop one date everywhere
    for i in used[:40]:
        t = copy.deepcopy(trace)
        for op in t['ops']:
            if 'vals' in op:
                op['vals'] = [[j, v] for j, v in op['vals'] if j != i]
        yield t
    for k, op in enumerate(trace['ops']):
        if op['op'] == 'publish':
            if op.get('named'):
                t = copy.deepcopy(trace); t['ops'][k]['named'] = False; yield t
            if op['mode'] == 'implicit':
                t = copy.deepcopy(trace); t['ops'][k]['mode'] = 'explicit'; yield t
            for j, (i, v) in enumerate(op['vals']):
                if v != 1.0 and v != {'f': '1.0'}:
                    t = copy.deepcopy(trace); t['ops'][k]['vals'][j][1] = {'f': '1.0'}; yield t
        if op['op'] == 'tick' and op['d'] not in (0, 1):
            t = copy.deepcopy(trace); t['ops'][k]['d'] = 1; yield t
        if op['op'] == 'publish_many':
            for j in range(len(op['versions'])):
                t = copy.deepcopy(trace); del t['ops'][k]['versions'][j]; yield t
            for j, vs in enumerate(op['versions']):
                for q in range(len(vs)):
                    t = copy.deepcopy(trace); del t['ops'][k]['versions'][j][q]; yield t
        if op['op'] == 'sweep' and k != len(trace['ops']) - 1:
            pass


def size(trace):
    s = len(trace['ops']) * 20 + trace['cfg']['n_dates']
    for op in trace['ops']:
        if 'old' in op:
            s += 3 * (len(op['old']) + len(op['new']))
        if 'versions' in op:
            s += sum(5 + 3 * len(vs) for vs in op['versions'])
        if 'vals' in op:
            s += 3 * len(op['vals']) + sum(1 for i, v in op['vals'] if v != {'f': '1.0'})
        if op.get('named'):
            s += 2
        if op.get('mode') == 'implicit':
            s += 2
        if op['op'] == 'tick' and op['d'] not in (0, 1):
            s += 1
    return s


def signature(trace, violation):
    return violation['cls']


PROBES = ['same-stamp-publication', 'same-stamp-override', 'nan-does-not-override', 'revert-to-earlier-value',
          'date-first-published-later', 'store>=17-rows', 'implicit-now-stamp', 'read-strictly-between-stamps',
          'read-before-first-stamp', 'redelivery-of-version-in-store', 'redelivery-of-overridden-version',
          'bump-stamp-capped-at-now', 'named-series', 'several-versions-merged-in-one-call', 'stamp-ahead-of-clock', 'named-index', 'caller-owned-list-of-plain-series', 'same-list-object-published-again', 'store-started-from-plain-old-data', 'correction-swapping-two-held-values']
TIERS = {'quick': {'runs': 4000, 'wallcap': 50}, 'thorough': {'runs': 150000, 'wallcap': 800}}
COMPONENTS = {
    'real': ['pyg_base._bitemporal Bi / bi_merge / bi_read', 'pyg_base._dates.dt (stamp parsing, "now")', 'pandas concat/sort/groupby'],
    'stub': ['wall clock (SimClock behind the datetime seam of pyg_base._dates)', 'publishers, readers and the redelivering network are the simulator itself'],
}
RULE = ('one case = one seeded history of ticks (incl. zero ticks = clock stall), publications (explicit stamp or implicit "now" through the clock seam), '
        'redeliveries, as-of reads and a final sweep of reads before/on/between/after every stamp, what in {-1, 0}; non-trivial = at least 2 '
        'publications and 2 reads and, in a fault configuration, at least one fired fault; distinct = distinct digest of (trace, observations)')
ASSUMPTIONS = ['stamps are non-decreasing in merge order (the clock never goes back), as the property presupposes; redelivery re-merges an earlier message verbatim',
               'versions are pandas Series (float or int valued, optionally named) over a common set of observation dates',
               'what=0 with several publications sharing the earliest stamp of a date: any of them is accepted (the statement is ambiguous there)']
