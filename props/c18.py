"""C18: decorators are transparent; a cached function evaluates once; try_* fall back exactly when f raises.

World: a pool of generated base functions (real `def`s drawn from the signature grid 0-4 positional
parameters x trailing defaults x *args x **kwargs, ledgered, optionally armed to raise) and a pool of
wrapper objects built from them by a seeded stream of `wrap` operations (try_none/nan/zero/false/true/list,
try_value(repeat, sleep), try_back, kwargs_support, cache, loop(...), pd2np), interleaved with calls whose
valid argument set is split between positional and keyword passing in every legal way, clear_cache,
getargspec, getcallargs and call_with_callargs.

Why a simulation: the wrappers are stateful (cache dicts that are inherited and shared when a cached
function is re-wrapped, lazily cached specs, a constructor that rewires wrapper objects nested inside its
argument), f can fail, and try_value retries with time.sleep (behind the simulated clock).  Oracles are
evaluated on every step and every OTHER live wrapper is re-inspected after each construction.
"""
import copy as _copy
import inspect
import math

from sim.core import Violation, Result, dec, enc
from sim.seams import SimClock

PROP = 'C18'
HASH_SENSITIVE = False
NAMES = ['a', 'b', 'c', 'd']


def _names(s):
    """parameter names of a generated function; its last defaulted parameter may be called `axis`"""
    names = NAMES[:s['npos']]
    if s.get('axis_param') and s['ndef'] >= 1 and s['npos'] >= 2:
        names = names[:-1] + ['axis']
    return names
SCALARS = [0, 1, 2, 3, 5, 13, 's', 't', None, -1, -2]      # hash(-1) == hash(-2) in CPython: distinct arguments, equal hashes
CONTAINERS = [[1, 2], [], {'k': [1]}, [[3]], {'p': 1, 'q': 2}, {'odict': [['p', 1], ['q', 2]]}, {'odict': [['q', 3], ['p', 1]]}, {'pdict': [['k', 5]]},
              {'pdict': [['k', 6]]}, {'odict': [['k', [1]]]}, {'range': 3}, {'range': 0}]      # mappings of other classes than dict: an argument like any other
TRY_VALUES = ['none', 'nan', 'zero', 'false', 'true', 'list', 'dict']
POOL = 8


INVALID = ('invalid-call',)
ARGPOOL = [[1, 2], [], {'k': 1}]      # initial content of the caller's long-lived argument objects


class _Ref:
    def __init__(self, k):
        self.k = k


def _enc(v):
    if isinstance(v, _Ref):
        return {'ref': v.k}
    if isinstance(v, dict) and set(v) == {'range'}:
        return dict(v)
    if isinstance(v, dict) and set(v) in ({'odict'}, {'pdict'}):
        (kind, items), = v.items()
        return {kind: [[k, enc(x)] for k, x in items]}
    return enc(v)


def _dec(v, pool):
    if isinstance(v, dict) and 'ref' in v:
        return pool[v['ref'] % len(pool)]
    if isinstance(v, dict) and set(v) == {'range'}:
        return range(v['range'])            # a sequence that is neither list nor tuple: an argument like any other
    if isinstance(v, dict) and set(v) == {'odict'}:
        import collections
        return collections.OrderedDict((k, dec(x)) for k, x in v['odict'])
    if isinstance(v, dict) and set(v) == {'pdict'}:
        from pyg_base import Dict
        return Dict({k: dec(x) for k, x in v['pdict']})
    return dec(v)


class SimFError(Exception):
    pass


class SimTypeError(TypeError, SimFError):
    """f itself may raise a TypeError: that is f's outcome, not a binding problem of the wrapper"""


class SimInterrupt(KeyboardInterrupt):
    """not an Exception: an interrupt that arrives while f is being evaluated"""


# ----------------------------------------------------------------------------------------------
# generation
# ----------------------------------------------------------------------------------------------
def _gen_sig(sw):
    npos = sw.choice([0, 1, 1, 2, 2, 3, 4])
    return {'npos': npos, 'ndef': sw.randint(0, npos), 'varargs': sw.random() < 0.3, 'varkw': sw.random() < 0.3, 'sentinel': sw.random() < 0.2}


def generate(st):
    sw, g, f = st.swarm, st.gen, st.fault
    retry = sw.random() < 0.15
    faulty = sw.random() < 0.6
    nf = sw.choice([1, 1, 2, 3])
    funcs = []
    for _ in range(nf):
        s = _gen_sig(sw)
        if retry:
            s['arm'] = 'transient'
            s['m'] = sw.choice([0, 1, 2, 3, 5])
        else:
            s['arm'] = 'on13' if (faulty and sw.random() < 0.7) else 'never'
        # what f returns: usually a canonical record of what it received; for some argument values a falsy result
        s['ret'] = sw.choice(['canon', 'canon', 'none_some', 'zero_some', 'emptylist_some'])
        s['bare'] = sw.random() < 0.3          # raises an exception that carries no message
        s['exc_type'] = sw.random() < 0.3      # the armed failure is a TypeError (raised BY f)
        s['interrupt_once'] = (not retry) and faulty and sw.random() < 0.15      # the very first evaluation of f is interrupted
        s['axis_param'] = sw.random() < 0.06   # a parameter that happens to be called axis (the name loops uses itself)
        funcs.append(s)
    decs = ['try', 'back', 'kws', 'cache', 'loop', 'pd2np']
    if retry:
        decs = ['try', 'kws', 'cache']      # a cached function whose first evaluation of a key fails and a later one succeeds
    else:
        decs = sorted(sw.sample(decs, sw.randint(2, len(decs))))
    cfg = {'funcs': funcs, 'mode': 'retry' if retry else 'normal', 'faulty': faulty, 'decs': decs,
           'n_ops': sw.choice([6, 10, 16, 24, 36] + ([60, 100] if getattr(st, 'deep', False) else [])), 'p13': sw.choice([0.0, 0.05, 0.15]) if faulty else 0.0,
           'containers': sw.random() < 0.5, 'argpool': sw.random() < 0.4}
    # memo-stress configuration: few decorators around a cache, a small argument alphabet so that keys repeat, f raising
    # often, and every call replayed on the other wrappers of the same function (memo dicts are inherited on re-wrapping)
    stress = (not retry) and faulty and sw.random() < 0.35
    cfg['stress'] = stress
    if stress:
        cfg['decs'] = sorted(set(['cache'] + sw.sample(['try', 'back', 'kws', 'loop'], sw.randint(1, 3))))
        cfg['p13'] = 0.3
        cfg['containers'] = False
        for s_ in funcs:
            s_['arm'] = 'on13'
    ops = []
    chains = []       # generator-side model of the pool: (fid, [layer types])

    def value(first=False):
        if not first and cfg['containers'] and cfg.get('argpool') and g.random() < 0.25:
            return _Ref(g.randrange(3))          # one of the caller's own long-lived containers (edited between calls)
        if not first and cfg['containers'] and g.random() < 0.3:
            return g.choice(CONTAINERS)
        if g.random() < cfg['p13']:
            return 13
        if cfg.get('stress'):
            return g.choice([1, 1, 2, -1, -2])
        return g.choice([v for v in SCALARS if v != 13])

    def gen_dec():
        t = g.choice(cfg['decs'])
        if t == 'try':
            d = {'t': 'try', 'value': g.choice(TRY_VALUES)}
            if retry or g.random() < 0.1:
                d['repeat'] = g.choice([0, 1, 2, 3])
                d['sleep'] = g.choice([0, 0, 1, 60])
            if g.random() < 0.2:
                d['verbose'] = True
            return d
        if t == 'loop':
            return {'t': 'loop', 'types': g.choice([['list'], ['list', 'tuple'], ['dict'], ['list', 'tuple', 'dict']])}
        if t == 'pd2np' and g.random() < 0.4:
            return {'t': 'pd2np', 'exc': g.choice(['b', 'c', 'zz', ['b', 'd']])}       # parameters left out of the pandas conversion
        return {'t': t}

    def gen_call(fid, chain_types):
        s = funcs[fid]
        npos, ndef = s['npos'], s['ndef']
        req = npos - ndef
        provided = req + (g.randint(0, ndef) if ndef else 0)      # a prefix of the parameters gets values
        if s['varargs'] and g.random() < 0.5:
            provided = npos
        p = g.randint(0, provided)                                  # the first p positionally, the rest by name
        if s['varargs'] and provided == npos and g.random() < 0.6:
            p = provided
        pos = [value(first=(i == 0)) for i in range(p)]
        names = _names(s)[p:provided]
        # optional parameters may also be skipped individually when passed by name
        kw = []
        for i, nm in enumerate(names):
            idx = p + i
            if idx >= req and g.random() < 0.3:
                continue
            kw.append([nm, value(first=(idx == 0))])
        g.shuffle(kw)
        if s['varargs'] and p == npos and g.random() < 0.5:
            for _ in range(g.randint(1, 2)):
                pos.append(value(first=(len(pos) == 0)))
        extra = []
        if (s['varkw'] or 'kws' in chain_types) and g.random() < 0.4:
            # undeclared keywords, also ones spelled like f's *args / **kw parameters or like a local variable of f
            for nm in g.sample(['zz', 'yy', 'k9', 'tmp'] + (['args', 'kw'] if s['varkw'] else ['args'] if s['varargs'] else []), g.randint(1, 2)):
                extra.append([nm, value()])
        return {'pos': [_enc(v) for v in pos], 'kw': [[k, _enc(v)] for k, v in kw], 'extra': [[k, _enc(v)] for k, v in extra]}

    for _ in range(cfg['n_ops']):
        r = g.random()
        if not chains or r < 0.3:
            if chains and g.random() < 0.6:
                src = g.randrange(len(chains))
                fid, types = chains[src]
                d = gen_dec()
                if g.random() < 0.25 and types:
                    d2 = {'t': g.choice(types)}          # a decorator that is already in the chain
                    if d2['t'] == 'try':
                        d2['value'] = g.choice(TRY_VALUES)
                    if d2['t'] == 'loop':
                        d2['types'] = ['list']
                    if d2['t'] in cfg['decs']:
                        d = d2
                ops.append({'op': 'wrap', 'src': src, 'dec': d})
                new = (fid, [d['t']] + [t for t in types if t != d['t']])
            else:
                fid = g.randrange(nf)
                d = gen_dec()
                ops.append({'op': 'wrap', 'src': ['f', fid], 'dec': d})
                new = (fid, [d['t']])
            if len(chains) >= POOL:
                chains.pop(0)
            chains.append(new)
        elif r < 0.8:
            i = g.randrange(len(chains))
            fid, types = chains[i]
            c = gen_call(fid, types)
            c.update({'op': 'call', 'obj': i})
            ops.append(c)
            if g.random() < 0.45:
                # the same combination again, keywords permuted
                c2 = _copy.deepcopy(c)
                g.shuffle(c2['kw'])
                if g.random() < 0.3 and len(chains) > 1:
                    j = g.randrange(len(chains))
                    if chains[j][0] == fid and ('kws' in chains[j][1] or not c2['extra'] or funcs[fid]['varkw']):
                        c2['obj'] = j
                ops.append(c2)
            if cfg.get('stress'):
                for j in range(len(chains)):
                    if j != i and chains[j][0] == fid and g.random() < 0.6 and (not c['extra'] or 'kws' in chains[j][1] or funcs[fid]['varkw']):
                        c3 = _copy.deepcopy(c)
                        c3['obj'] = j
                        ops.append(c3)
        elif r < 0.8005 and 'cache' in cfg['decs'] and not retry:
            ops.append({'op': 'flood', 'n': g.choice([300, 1100, 4200, 4200, 9000])})
        elif r < 0.815 and 'cache' in cfg['decs'] and not retry:
            extra_ = [d_ for d_ in cfg['decs'] if d_ in ('kws', 'loop', 'pd2np')]
            stack = [{'t': 'cache'}]
            if extra_ and g.random() < 0.5:
                e_ = {'t': g.choice(extra_)}
                if e_['t'] == 'loop':
                    e_['types'] = ['list']
                stack = [e_] + stack if g.random() < 0.5 else stack + [e_]
            ops.append({'op': 'recursion', 'n': g.choice([3, 5, 8, 12]), 'decs': stack, 'by_pos': g.random() < 0.7})
        elif r < 0.822 and 'try' in cfg['decs'] and not retry:
            stack = [{'t': 'try', 'value': g.choice(['zero', 'true', 'false', 'nan', 'none'])}]
            if 'kws' in cfg['decs'] and g.random() < 0.4:
                stack = ([{'t': 'kws'}] + stack) if g.random() < 0.5 else (stack + [{'t': 'kws'}])
            lists = []
            for _ in range(g.choice([1, 2, 3])):
                n_ = g.choice([1, 2, 3, 4, 6])
                items = [g.choice([1, 2, 3, 5]) for _ in range(n_)]
                for _ in range(g.choice([0, 1, 1, 2])):
                    items[g.randrange(n_)] = 'bad'
                lists.append(items)
            ops.append({'op': 'recursion_try', 'value': stack[0]['value'] if stack[0]['t'] == 'try' else stack[1]['value'], 'decs': stack, 'lists': lists})
        elif r < 0.826 and 'try' in cfg['decs']:
            ops.append({'op': 'user_subclass', 'outers': g.sample(['try_none', 'try_zero', 'kwargs_support', 'cache', 'kwargs_support(try_none)'], g.choice([1, 2, 3]))})
        elif r < 0.83 and cfg.get('argpool') and cfg['containers']:
            k_ = g.randrange(3)
            prev_ = [o_ for o_ in ops if o_['op'] == 'call' and any(isinstance(v_, dict) and v_.get('ref') == k_ for v_ in list(o_['pos']) + [v2 for _, v2 in o_['kw']])]
            if prev_ and g.random() < 0.6:
                ops.append(_copy.deepcopy(prev_[-1]))      # the same call right before ...
            ops.append({'op': 'edit_arg', 'k': k_, 'v': g.choice([1, 2, 5, 's'])})
            if prev_ and g.random() < 0.8:
                ops.append(_copy.deepcopy(prev_[-1]))      # ... and right after the caller edited that very argument object
        elif r < 0.86:
            cands = [i for i, (fid, types) in enumerate(chains) if types and types[0] == 'cache']
            if cands:
                ops.append({'op': 'clear', 'obj': g.choice(cands)})
        elif r < 0.93:
            ops.append({'op': 'spec', 'obj': g.randrange(len(chains))})
        else:
            i = g.randrange(len(chains))
            fid, types = chains[i]
            c = gen_call(fid, [])
            if not funcs[fid]['varkw']:
                c['extra'] = []
            c.update({'op': 'callargs', 'obj': i})
            ops.append(c)
    return {'prop': PROP, 'cfg': cfg, 'ops': ops}


# ----------------------------------------------------------------------------------------------
# base functions: a ledgered one (given to the library) and a plain twin (given to inspect)
# ----------------------------------------------------------------------------------------------
def _sig_src(s):
    npos, ndef = s['npos'], s['ndef']
    parts = []
    for i in range(npos):
        nm = _names(s)[i]
        if i >= npos - ndef and i == npos - 1 and s.get('sentinel'):
            parts.append('%s=MISSING' % nm)          # the usual "no value given" marker, recognised by identity
        else:
            parts.append(nm if i < npos - ndef else '%s=%d' % (nm, 100 + i))
    if s['varargs']:
        parts.append('*args')
    if s['varkw']:
        parts.append('**kw')
    return ', '.join(parts)


HOOK = {'fn': None}


class _Missing:
    def __repr__(self):
        return '<MISSING>'


MISSING = _Missing()


def _make_funcs(fid, s, ledger):
    names = _names(s)
    collect = '(%s)' % ''.join('%s, ' % n for n in names)
    va = 'tuple(args)' if s['varargs'] else '()'
    kwv = '(kworder.append(list(kw)) or tuple(sorted(kw.items(), key=lambda kv: kv[0])))' if s['varkw'] else '()'
    src = ("def f(%s):\n"
           "    tmp = 0          # a local variable: its name is no parameter\n"
           "    return body(%s, %s, %s)\n"
           "def twin(%s):\n"
           "    return None\n") % (_sig_src(s), collect, va, kwv, _sig_src(s))
    state = {'calls': 0}

    def body(named, varargs, kwitems):
        if HOOK['fn'] is not None:
            fn_, HOOK['fn'] = HOOK['fn'], None        # one shot: what f does, while it runs, with the library
            fn_()
        state['calls'] += 1
        vals = list(named) + list(varargs) + [v for _, v in kwitems]
        raised = False
        if s.get('arm') == 'on13' and any(_has13(v) for v in vals):
            raised = True
        if s.get('arm') == 'transient' and state['calls'] <= s.get('m', 0):
            raised = True
        if s.get('interrupt_once') and state['calls'] == 1:
            ledger.append({'fid': fid, 'raised': True, 'n': state['calls']})
            raise SimInterrupt('interrupted')
        ledger.append({'fid': fid, 'raised': raised, 'n': state['calls']})
        if raised and s.get('exc_type') and not s.get('bare'):
            raise SimTypeError('f%d armed (50%% of the way, key %%s)' % fid)
        if raised:
            if s.get('bare'):
                raise SimFError()
            raise SimFError('f%d armed (50%% of the way, key %%s)' % fid)
        return _ret(s, fid, tuple(named), tuple(varargs), tuple(kwitems))
    kworder = []
    ns = {'body': body, 'kworder': kworder, 'MISSING': MISSING}
    exec(src, ns)
    ns['f'].kworder = kworder
    return ns['f'], ns['twin']


def _snap(v):
    """an immutable snapshot of an argument: f must not hand the caller's own containers back inside its result (a memoised
    result would then change whenever the caller edits its argument object, which is nobody's fault)"""
    if isinstance(v, list):
        return ('L',) + tuple(_snap(x) for x in v)
    if isinstance(v, tuple):
        return ('T',) + tuple(_snap(x) for x in v)
    if isinstance(v, dict):
        return ('D',) + tuple((k, _snap(x)) for k, x in sorted(v.items(), key=lambda kv: str(kv[0])))
    return v


def _ret(s, fid, named, varargs, kwitems):
    named = tuple(_snap(v) for v in named)
    varargs = tuple(_snap(v) for v in varargs)
    kwitems = tuple((k, _snap(v)) for k, v in kwitems)
    mode = s.get('ret', 'canon')
    if mode != 'canon':
        vals = list(named) + list(varargs)
        first = vals[0] if vals else None
        if first in (0, 1, None) and not isinstance(first, bool):
            return {'none_some': None, 'zero_some': 0, 'emptylist_some': []}[mode]
    return ('R', fid, named, varargs, kwitems)


def _has13(v):
    if isinstance(v, (list, tuple)):
        return any(_has13(x) for x in v)
    if isinstance(v, dict):
        return any(_has13(x) for x in v.values())
    return isinstance(v, int) and not isinstance(v, bool) and v == 13


def _expected_value(fid, s, twin, args, kwargs):
    """what f returns for this call (or 'raise'), computed with python's own binder; None if the call is invalid"""
    try:
        ba = inspect.signature(twin).bind(*args, **kwargs)
    except TypeError:
        return INVALID
    ba.apply_defaults()
    named = tuple(ba.arguments[n] for n in _names(s))
    varargs = tuple(ba.arguments.get('args', ())) if s['varargs'] else ()
    kwitems = tuple(sorted(ba.arguments.get('kw', {}).items(), key=lambda kv: kv[0])) if s['varkw'] else ()
    vals = list(named) + list(varargs) + [v for _, v in kwitems]
    if s.get('arm') == 'on13' and any(_has13(v) for v in vals):
        return 'raise'
    return _ret(s, fid, named, varargs, kwitems)


def _freeze(v):
    if isinstance(v, (list, tuple)):
        return ('L',) + tuple(_freeze(x) for x in v)
    if isinstance(v, dict):
        return ('D',) + tuple(sorted((k, _freeze(x)) for k, x in v.items()))
    return ('S', type(v).__name__, v)


def _key(args, kwargs):
    return (tuple(_freeze(a) for a in args), tuple(sorted((k, _freeze(v)) for k, v in kwargs.items())))


def _deep_same(a, b):
    if type(a) is not type(b):
        return False
    if isinstance(a, float):
        return (math.isnan(a) and math.isnan(b)) or a == b
    if isinstance(a, (list, tuple)):
        return len(a) == len(b) and all(_deep_same(x, y) for x, y in zip(a, b))
    if isinstance(a, dict):
        return sorted(a.keys(), key=str) == sorted(b.keys(), key=str) and all(_deep_same(a[k], b[k]) for k in a)
    return a == b


FALLBACK = {'none': None, 'nan': float('nan'), 'zero': 0, 'false': False, 'true': True, 'list': [], 'dict': {}}


# ----------------------------------------------------------------------------------------------
# execution
# ----------------------------------------------------------------------------------------------
def execute(trace, ctx=None):
    import pyg_base
    from pyg_base._decorators import try_value, kwargs_support, wrapper
    from pyg_base._cache import cache_func
    from pyg_base import (try_none, try_nan, try_zero, try_false, try_true, try_list, try_back, cache, loop, pd2np,
                          getargspec, getcallargs, call_with_callargs)
    import datetime
    res = Result()
    cfg = trace['cfg']
    SimClock.reset(datetime.datetime(2021, 1, 1))
    ledger = []
    funcs = []
    for fid, s in enumerate(cfg['funcs']):
        f, twin = _make_funcs(fid, s, ledger)
        funcs.append((f, twin, s))
    argpool = _copy.deepcopy(ARGPOOL)
    pool = []         # dicts: real, fid, chain (model: list of layer dicts outer -> inner), seen {key: first result}
    by_base = {}      # (fid, key at the cache layer) -> list of result objects produced by evaluations
    retry = cfg.get('mode') == 'retry'
    TRY = {'none': try_none, 'nan': try_nan, 'zero': try_zero, 'false': try_false, 'true': try_true, 'list': try_list}
    TYPES = {'list': list, 'tuple': tuple, 'dict': dict}
    state = {'step': 0}

    def build(dec_, target):
        t = dec_['t']
        if t == 'try':
            if 'repeat' in dec_ or dec_['value'] == 'dict' or dec_.get('verbose'):
                return try_value(repeat=dec_.get('repeat', 0), sleep=dec_.get('sleep', 0), value=_copy.copy(FALLBACK[dec_['value']]),
                                 verbose=True if dec_.get('verbose') else None)(target)
            return TRY[dec_['value']](target)
        if t == 'back':
            return try_back(target)
        if t == 'kws':
            return kwargs_support(target)
        if t == 'cache':
            return cache(target)
        if t == 'loop':
            return loop(*[TYPES[x] for x in dec_['types']])(target)
        if t == 'pd2np':
            return pd2np(exc=dec_['exc'])(target) if dec_.get('exc') else pd2np(target)
        raise ValueError(t)

    def real_chain(obj):
        out = []
        seen_ids = set()
        while isinstance(obj, wrapper):
            if id(obj) in seen_ids:
                out.append('CYCLE')
                break
            seen_ids.add(id(obj))
            out.append(_layer_of(obj, try_value, kwargs_support, cache_func))
            obj = dict.__getitem__(obj, 'function')
        return out, obj

    def model_layer(dec_):
        t = dec_['t']
        if t == 'try':
            return ('try', dec_['value'], dec_.get('repeat', 0), dec_.get('sleep', 0))
        if t == 'loop':
            return ('loop', tuple(dec_['types']))
        return (t,)

    def check_pool(k, why):
        for j, o in enumerate(pool):
            got, base = real_chain(o['real'])
            want = [_norm_layer(model_layer(l)) for l in o['chain']]
            if got != want:
                cls = 'double-wrapping' if len(got) != len(set(x[0] for x in got)) else 'wrapper-altered-by-construction'
                raise Violation(cls, 'object#%d: chain is %s, expected %s (%s)' % (j, got, want, why), k)
            if base is not funcs[o['fid']][0]:
                raise Violation('wrapper-altered-by-construction', 'object#%d no longer wraps its base function (%s)' % (j, why), k)

    def descend(o, args, kwargs):
        """(args, kwargs) as seen at each layer and at the base, following the documented behaviour of each decorator"""
        s = funcs[o['fid']][2]
        declared = _names(s)
        seen = []
        a, kw = list(args), dict(kwargs)
        for l in o['chain']:
            seen.append((list(a), dict(kw)))
            t = l['t']
            if t == 'kws':
                if not s['varkw']:
                    kw = {k2: v for k2, v in kw.items() if k2 in declared}
            elif t == 'loop':
                if not a and declared and declared[0] in kw:
                    a = [kw.pop(declared[0])]
        return seen, a, kw

    def do_call(o, args, kwargs, k, how='call'):
        """performs the real call and checks it; returns nothing"""
        fid = o['fid']
        f, twin, s = funcs[fid]
        seen, ba, bkw = descend(o, args, kwargs)
        exp = _expected_value(fid, s, twin, ba, bkw)
        if exp is INVALID:
            return 'invalid'
        declared = _names(s)
        # try_back's fallback is "the first argument": undefined when none is passed at that layer
        types = [l['t'] for l in o['chain']]
        for (a, kw), l in zip(seen, o['chain']):
            if l['t'] == 'back' and not a and not (declared and declared[0] in kw) and (exp == 'raise' or retry):
                return 'invalid'
            if l['t'] == 'pd2np' and not a and not (declared and declared[0] in kw):
                res.probe('pd2np-without-first-argument')
        before = len(ledger)
        sleeps0, slept0, now0 = SimClock.sleeps, SimClock.slept, SimClock.now
        try:
            if how == 'call':
                r = o['real'](*args, **kwargs)
            else:
                r = how()
            status = 'ok'
        except SimFError as e:
            r, status = e, 'raise'
        except SimInterrupt:
            # an interrupt during the very first evaluation of f: nothing is asserted about this call (try_* may or may not
            # let it through); the caller catches it and carries on - later calls must behave as if it had not happened
            res.fault('interrupt')
            return 'ok'
        except Exception as e:
            raise Violation('unexpected-exception', 'object#%d%s called with %r %r raised %s: %s' % (pool.index(o) if o in pool else -1, types, args, kwargs, type(e).__name__, str(e)[:200]), k)
        evals = ledger[before:]
        n_ok = sum(1 for e in evals if not e['raised'])
        n_bad = sum(1 for e in evals if e['raised'])
        res.stat('calls')
        if any(e['fid'] != fid for e in evals):
            raise Violation('wrong-function-evaluated', 'a call on a wrapper of f%d evaluated another function' % fid, k)
        # ---------------- retry configuration: assertions that do not depend on the number of attempts ----------------
        if retry:
            sleeps = SimClock.sleeps - sleeps0
            if sleeps:
                res.fault('simulated_sleep', sleeps)
            if n_bad:
                res.fault('transient_fail', n_bad)
            if SimClock.now - now0 != datetime.timedelta(seconds=SimClock.slept - slept0):
                raise Violation('harness', 'clock moved by something other than sleep', k)
            has_try = 'try' in types
            if n_ok > 1:
                raise Violation('evaluated-after-success', 'f succeeded %d times within one call' % n_ok, k)
            if n_ok == 1:
                if evals[-1]['raised']:
                    raise Violation('evaluated-after-success', 'f was evaluated again after an attempt had succeeded', k)
                if status != 'ok' or not _deep_same(r, _expected_value(fid, dict(s, arm='never'), twin, ba, bkw)):
                    raise Violation('retry-result', 'an attempt succeeded but the call returned %r' % (r,), k)
                if n_bad:
                    res.probe('retry-then-success')
                if 'cache' in types:
                    by_base.setdefault((fid, _key(*seen[types.index('cache')])), []).append(r)
            else:
                if not evals:
                    # under a cache a call may be served from the memo: then it must be the very object a successful
                    # evaluation with an equal key produced earlier
                    if 'cache' in types and status == 'ok':
                        rk = _key(*seen[types.index('cache')])
                        if any(r is x for x in by_base.get((fid, rk), [])):
                            res.probe('cache-hit')
                            return 'ok'
                    raise Violation('not-evaluated', 'the call returned %r without evaluating f' % (r,), k)
                if has_try:
                    fb = _fallback_of(o)
                    if status != 'ok' or not _deep_same(r, fb):
                        raise Violation('fallback', 'every attempt raised but the call produced %r instead of the fallback %r' % (r, fb), k)
                    res.probe('fallback-taken')
                elif status != 'raise':
                    raise Violation('exception-swallowed', 'f raised and no try_* wrapper is present, yet the call returned %r' % (r,), k)
            if sleeps > n_bad:
                raise Violation('sleep-count', '%d sleeps for %d failed attempts' % (sleeps, n_bad), k)
            if 'cache' in types and status == 'ok':
                # whatever a cached stack returned (a value, or a fallback produced BELOW the cache) may be served again
                by_base.setdefault((fid, _key(*seen[types.index('cache')])), []).append(r)
            return 'ok'
        # ---------------- normal configuration ----------------
        # expected outcome: f's own outcome passed outwards through the stack
        outcome = exp
        for (a, kw), l in reversed(list(zip(seen, o['chain']))):
            if outcome == 'raise':
                if l['t'] == 'try':
                    outcome = ('fallback', _copy.copy(FALLBACK[l['value']]))
                    res.probe('fallback-taken')
                elif l['t'] == 'back':
                    outcome = ('fallback', a[0] if a else kw[declared[0]])
                    res.probe('fallback-taken')
        if outcome == 'raise':
            res.fault('f_raises')
            if status != 'raise':
                raise Violation('exception-swallowed', 'f raises for %r %r and no try_* wrapper is in %s, yet the call returned %r' % (args, kwargs, types, r), k)
            return 'ok'
        if status == 'raise':
            cls = 'fallback' if exp == 'raise' else 'unexpected-exception'
            raise Violation(cls, 'object%s called with %r %r raised %s; expected %r' % (types, args, kwargs, r, outcome), k)
        want = outcome[1] if isinstance(outcome, tuple) and outcome[0] == 'fallback' else outcome
        if exp == 'raise':
            res.fault('f_raises')
            if not _deep_same(r, want):
                raise Violation('fallback', 'object%s: f raises for %r %r; got %r, expected the fallback %r' % (types, args, kwargs, r, want), k)
            # the caller owns what it was handed: it may well edit a list/dict fallback; the next fallback must be unaffected
            if isinstance(r, list) and r == [] and outcome[0] == 'fallback' and _is_try_fallback(o, seen, declared):
                r.append('edited-by-caller')
                res.probe('caller-edits-mutable-fallback')
            elif isinstance(r, dict) and r == {} and outcome[0] == 'fallback' and _is_try_fallback(o, seen, declared):
                r['edited-by-caller'] = 1
                res.probe('caller-edits-mutable-fallback')
            return 'ok'
        if not _deep_same(r, want):
            cls = 'kwargs-support' if 'kws' in types and (set(kwargs) - set(declared)) else 'not-transparent'
            if 'loop' in types and 'axis' in declared and 'axis' in seen[types.index('loop')][1]:
                cls = 'loop-swallows-axis-keyword'
            raise Violation(cls, 'object%s called with %r %r returned %r, f returns %r' % (types, args, kwargs, r, want), k)
        if n_bad:
            raise Violation('harness', 'f raised although the model says it does not', k)
        if 'cache' in types:
            ci = types.index('cache')
            key = _key(*seen[ci])
            if any(_unhashable_marker(v) for v in list(seen[ci][0]) + list(seen[ci][1].values())):
                res.probe('unhashable-argument')
            if len(kwargs) >= 2:
                res.probe('multi-keyword-call')
            if key in o['seen']:
                res.probe('cache-hit')
                if not r and r is not False:
                    res.probe('falsy-result-cached')
                if n_ok != 0:
                    raise Violation('evaluated-more-than-once', 'object%s: %r %r was already computed by this cached function, f was evaluated again' % (types, args, kwargs), k)
                if r is not o['seen'][key]:
                    raise Violation('not-first-result', 'object%s: a repeated call did not return the first result object' % (types,), k)
            else:
                if n_ok > 1:
                    raise Violation('evaluated-more-than-once', 'object%s: f evaluated %d times for one new combination' % (types, n_ok), k)
                if n_ok == 0:
                    earlier = by_base.get((fid, key), [])
                    if not any(r is e for e in earlier):
                        raise Violation('phantom-cache-hit', 'object%s: first call with %r %r did not evaluate f and returned an object no earlier evaluation produced' % (types, args, kwargs), k)
                    res.probe('cache-hit-after-rewrap')
                else:
                    by_base.setdefault((fid, key), []).append(r)
                o['seen'][key] = r
        else:
            if n_ok != 1:
                res.stat('uncached-call-evaluations!=1')
                if n_ok == 0:
                    raise Violation('not-evaluated', 'object%s returned %r without evaluating f' % (types, r), k)
        return 'ok'

    def _fallback_of(o):
        for l in o['chain']:
            if l['t'] == 'try':
                return _copy.copy(FALLBACK[l['value']])
        return None

    try:
        for k, op in enumerate(trace['ops']):
            state['step'] = k
            kind = op['op']
            if kind == 'wrap':
                src = op['src']
                d = op['dec']
                if isinstance(src, list):
                    fid = src[1]
                    if not (0 <= fid < len(funcs)):
                        continue
                    target, chain = funcs[fid][0], []
                else:
                    if not (0 <= src < len(pool)):
                        continue
                    fid, target, chain = pool[src]['fid'], pool[src]['real'], pool[src]['chain']
                try:
                    real = build(d, target)
                except Exception as e:
                    raise Violation('unexpected-exception', 'wrapping with %s raised %s: %s' % (d, type(e).__name__, str(e)[:200]), k)
                if any(l['t'] == d['t'] for l in chain):
                    res.probe('same-decorator-through-chain' if chain[0]['t'] != d['t'] else 'same-decorator-directly')
                layer = dict(d)
                new_chain = [layer] + [l for l in chain if l['t'] != d['t']]
                o = {'real': real, 'fid': fid, 'chain': new_chain, 'seen': {}}
                if d['t'] == 'cache' and not isinstance(src, list) and chain and chain[0]['t'] == 'cache':
                    o['seen'] = dict(pool[src]['seen'])      # cache(c) is c: what c had computed counts as computed
                if len(pool) >= POOL:
                    pool.pop(0)
                pool.append(o)
                res.sets.setdefault('stacks', set()).add('%s|%s' % (_sigclass(funcs[fid][2]), '>'.join(l['t'] for l in new_chain)))
                check_pool(k, 'after wrapping %s with %s' % ('f%d' % fid if isinstance(src, list) else 'object#%d' % src, d['t']))
            elif kind in ('call', 'callargs'):
                if not (0 <= op['obj'] < len(pool)):
                    continue
                o = pool[op['obj']]
                args = [_dec(v, argpool) for v in op['pos']]
                kwargs = {k2: _dec(v, argpool) for k2, v in op['kw']}
                for k2, v in op.get('extra', []):
                    kwargs[k2] = _dec(v, argpool)
                if any(isinstance(v, dict) and 'ref' in v for v in list(op['pos']) + [v for _, v in op['kw']] + [v for _, v in op.get('extra', [])]):
                    res.probe('long-lived-argument-object')
                fid = o['fid']
                f, twin, s = funcs[fid]
                if kind == 'call':
                    r = do_call(o, args, kwargs, k)
                    if r == 'ok':
                        res.state_keys.add('%s|%s|p%d|k%d|x%d' % (_sigclass(s), '>'.join(l['t'] for l in o['chain']), len(args), len(op['kw']), len(op.get('extra', []))))
                else:
                    try:
                        want = inspect.getcallargs(twin, *args, **kwargs)
                    except TypeError:
                        continue
                    try:
                        got = getcallargs(o['real'], *args, **kwargs)
                    except Exception as e:
                        raise Violation('getcallargs', 'getcallargs(object, *%r, **%r) raised %s: %s' % (args, kwargs, type(e).__name__, e), k)
                    if not _deep_same(_norm_callargs(got), _norm_callargs(want)):
                        raise Violation('getcallargs', 'getcallargs(*%r, **%r) = %r, inspect says %r' % (args, kwargs, got, want), k)
                    res.probe('getcallargs-checked')
                    types = [l['t'] for l in o['chain']]
                    if 'cache' not in types and not retry:
                        # call_with_callargs(f, callargs) == f(*a, **k): it passes every named parameter positionally
                        pos2 = [want[n] for n in _names(s)] + list(want.get('args', ()))
                        kw2 = dict(want.get('kw', {}))
                        r = do_call(o, pos2, kw2, k, how=lambda: call_with_callargs(o['real'], got))
                        if r == 'ok':
                            res.probe('call_with_callargs-checked')
                        # **kwargs reach f in the order they were written (a function may depend on it)
                        if r == 'ok' and s['varkw'] and f.kworder and not any(l.get('exc') for l in o['chain']):      # pd2np(exc=...) passes the excluded keywords last
                            passed = [k2 for k2 in kwargs if k2 not in _names(s)]
                            if f.kworder[-1] != passed and sorted(f.kworder[-1]) == sorted(passed):
                                raise Violation('kwargs-order', 'call_with_callargs handed the undeclared keywords to f in the order %s, they were passed as %s' % (f.kworder[-1], passed), k)
                        # the dict is the caller's: it must come back as it went in, and work a second time
                        if not _deep_same(_norm_callargs(got), _norm_callargs(want)):
                            raise Violation('callargs-consumed', 'call_with_callargs altered the callargs dict it was given: now %r, was %r' % (got, want), k)
                        if r == 'ok':
                            # ... also while f is still running: f hands the very same dict to a helper of the same signature
                            box2 = {}

                            def again_():
                                try:
                                    box2['v'] = call_with_callargs(twin, got)
                                except BaseException as e_:
                                    box2['e'] = e_
                            HOOK['fn'] = again_
                            try:
                                do_call(o, pos2, kw2, k, how=lambda: call_with_callargs(o['real'], got))
                            finally:
                                HOOK['fn'] = None
                            if 'e' in box2:
                                raise Violation('callargs-consumed', 'while f was running through call_with_callargs, using the same callargs dict for a second '
                                                'function raised %s: %s' % (type(box2['e']).__name__, box2['e']), k)
                            if 'v' in box2:
                                res.probe('callargs-dict-used-again-while-f-runs')
            elif kind == 'edit_arg':
                # the caller edits one of its own containers between calls: a later call with it is a different combination
                a = argpool[op['k'] % len(argpool)]
                if isinstance(a, list):
                    a.append(op['v'])
                else:
                    a['e%d' % len(a)] = op['v']
                res.probe('argument-object-edited-between-calls')
            elif kind == 'flood':
                # one cached function asked for thousands of distinct arguments, then for the first ones again: a memo has no bound
                evals_ = []

                def many(a):
                    evals_.append(a)
                    return ('M', a)
                g2 = cache(many)
                n_ = int(op['n'])
                firsts = [g2(i) for i in range(n_)]
                c1_ = len(evals_)
                again = [g2(i) for i in (0, 1, 2, n_ // 2, n_ - 1)]
                if c1_ != n_ or len(evals_) != n_:
                    raise Violation('evaluated-more-than-once', 'after %d distinct calls, asking for 5 of them again evaluated f %d more times' % (n_, len(evals_) - n_), k)
                if any(x is not firsts[i] for x, i in zip(again, (0, 1, 2, n_ // 2, n_ - 1))):
                    raise Violation('not-first-result', 'after %d distinct calls a repeated call did not return the first result object' % n_, k)
                res.probe('flood-of-distinct-keys')
            elif kind == 'recursion':
                # a function that calls ITSELF through its cached wrapper (fib style): the memo is being filled while the
                # outermost call is still running.  n+1 distinct arguments -> n+1 evaluations, none afterwards.
                evals = []
                box_ = {}

                def rec(a, b=1):
                    evals.append(a)
                    return 0 if a <= 0 else 1 + box_['g'](a - 1) if op.get('by_pos', True) else 1 + box_['g'](a=a - 1)
                g_ = rec
                for d_ in reversed(op['decs']):
                    g_ = build(d_, g_)
                box_['g'] = g_
                n_ = op['n']
                call_ = (lambda a: g_(a)) if op.get('by_pos', True) else (lambda a: g_(a=a))     # one passing style throughout: one key per argument
                try:
                    v1 = call_(n_)
                    c1 = len(evals)
                    v2 = call_(n_)
                    v3 = call_(n_ - 1)
                    c2 = len(evals)
                except Exception as e:
                    raise Violation('unexpected-exception', 'recursive cached function raised %s: %s' % (type(e).__name__, str(e)[:200]), k)
                if v1 != n_ or v2 != n_ or v3 != n_ - 1:
                    raise Violation('not-transparent', 'recursive cached function returned %r, %r, %r for %d, %d, %d' % (v1, v2, v3, n_, n_, n_ - 1), k)
                if c1 != n_ + 1 or c2 != c1:
                    raise Violation('evaluated-more-than-once', 'f calling itself through its cached wrapper: %d evaluations for %d distinct arguments, %d more on repeating the calls'
                                    % (c1, n_ + 1, c2 - c1), k)
                res.probe('recursion-through-the-cache')
            elif kind == 'recursion_try':
                # a function that calls ITSELF through its own try_* wrapper (sum of a list, head + wrapper(tail)): an inner call that
                # falls back must not make the outer ones fall back (they did not raise), and the other way round
                V = _copy.copy(FALLBACK[op['value']])
                box_ = {}

                def tot(a, b=1):
                    if not a:
                        return 0
                    if a[0] == 'bad':
                        raise SimFError('bad item')
                    return a[0] + box_['g'](a[1:])

                def model_tot(a):
                    try:
                        if not a:
                            return 0
                        if a[0] == 'bad':
                            raise SimFError('bad item')
                        return a[0] + model_tot(a[1:])
                    except Exception:
                        return V
                g_ = tot
                for d_ in reversed(op['decs']):
                    g_ = build(d_, g_)
                box_['g'] = g_
                for items in op['lists']:
                    items = tuple(items)          # a tuple: loop(list) layers, if any, leave it alone
                    try:
                        got_ = g_(items)
                    except Exception as e:
                        raise Violation('unexpected-exception', 'recursive try-wrapped function raised %s: %s' % (type(e).__name__, str(e)[:200]), k)
                    exp_ = model_tot(items)
                    if not _deep_same(got_, exp_):
                        raise Violation('fallback', 'f calling itself through its own try wrapper on %r returned %r, expected %r (fallback %r exactly where f raises)'
                                        % (items, got_, exp_, V), k)
                res.probe('recursion-through-a-try-wrapper')
            elif kind == 'user_subclass':
                # the decorators are classes meant to be subclassed: a user's own subclass of one of them is a layer of its own, and
                # the library's decorators put around it return what IT returns
                class Tagged(try_value):
                    def wrapped(self, *args, **kwargs):
                        return ('tag', super(Tagged, self).wrapped(*args, **kwargs))

                def base_(a, b=1):
                    if a == 13:
                        raise SimFError('armed')
                    return ('F', a, b)
                g_ = Tagged(value='T')(base_)
                outers = {'try_none': TRY['none'], 'try_zero': TRY['zero'], 'kwargs_support': kwargs_support, 'cache': cache,
                          'kwargs_support(try_none)': lambda fn: kwargs_support(TRY['none'](fn))}
                for nm_ in op['outers']:
                    h_ = outers[nm_](g_)
                    for a_ in (1, 13, 1):
                        try:
                            got_ = h_(a_, zz=5) if nm_.startswith('kwargs_support') else h_(a_)
                        except Exception as e:
                            raise Violation('unexpected-exception', '%s around a user subclass of try_value raised %s: %s' % (nm_, type(e).__name__, e), k)
                        exp_ = ('tag', 'T') if a_ == 13 else ('tag', ('F', a_, 1))
                        if got_ != exp_:
                            raise Violation('not-transparent', '%s(g)(%r) = %r where g, a user subclass of try_value around f, returns %r' % (nm_, a_, got_, exp_), k)
                res.probe('user-subclass-of-a-decorator')
            elif kind == 'clear':
                if not (0 <= op['obj'] < len(pool)):
                    continue
                o = pool[op['obj']]
                if not o['chain'] or o['chain'][0]['t'] != 'cache':
                    continue
                try:
                    o['real'].clear_cache()
                except Exception as e:
                    raise Violation('unexpected-exception', 'clear_cache raised %s: %s' % (type(e).__name__, e), k)
                o['seen'] = {}
                res.probe('clear_cache')
                check_pool(k, 'after clear_cache')
            elif kind == 'spec':
                if not (0 <= op['obj'] < len(pool)):
                    continue
                o = pool[op['obj']]
                want = inspect.getfullargspec(funcs[o['fid']][0])
                if k % 2:
                    # somebody else asks for the parameter names first (public helper), and does what it likes with the answer;
                    # the specification reported afterwards - and every later call - must not notice
                    from pyg_base import getargs
                    try:
                        names_ = getargs(o['real'], k % 3)
                        if isinstance(names_, list):
                            names_.clear()
                    except Exception:
                        pass
                    res.probe('names-asked-before-spec')
                try:
                    got = getargspec(o['real'])
                except Exception as e:
                    raise Violation('argspec', 'getargspec raised %s: %s' % (type(e).__name__, e), k)
                for fld in ('args', 'varargs', 'varkw', 'defaults', 'kwonlyargs', 'kwonlydefaults', 'annotations'):
                    gv = got[fld] if isinstance(got, dict) else getattr(got, fld)
                    if gv != getattr(want, fld):
                        raise Violation('argspec', 'getargspec(object%s).%s = %r, f has %r' % ([l['t'] for l in o['chain']], fld, gv, getattr(want, fld)), k)
                res.probe('argspec-checked')
                f0_ = funcs[o['fid']][0]
                if k % 5 == 1:
                    # a plain function whose defaults are changed after it was asked about once: the next answer is about the
                    # function as it is now (inspect works that way); then one decorator OBJECT used for two functions
                    def pf(a, b=1, c=2):
                        return (a, b, c)
                    try:
                        getargspec(pf), getcallargs(pf, 0)
                        pf.__defaults__ = (7, 8)
                        d1_ = getargspec(pf).defaults
                        c1_ = getcallargs(pf, 0)
                    except Exception as e:
                        raise Violation('argspec', 'getargspec / getcallargs of a plain function raised %s: %s' % (type(e).__name__, e), k)
                    if tuple(d1_ or ()) != (7, 8) or not _deep_same(_norm_callargs(c1_), _norm_callargs(inspect.getcallargs(pf, 0))):
                        raise Violation('argspec', 'after its defaults were set to (7, 8) a plain function is reported with defaults %r, getcallargs(pf, 0) = %r' % (d1_, c1_), k)
                    from pyg_base import cache_func
                    deco_ = cache_func()
                    ev1_, ev2_ = [], []
                    c1f_ = deco_(lambda a: ev1_.append(a) or ('one', a))
                    c2f_ = deco_(lambda a: ev2_.append(a) or ('two', a))
                    r_ = [c1f_(2), c2f_(2), c1f_(2), c2f_(3)]
                    if r_ != [('one', 2), ('two', 2), ('one', 2), ('two', 3)] or ev1_ != [2] or ev2_ != [2, 3]:
                        raise Violation('not-transparent', 'one cache_func() decorator object applied to two functions: results %r, evaluations %r / %r' % (r_, ev1_, ev2_), k)
                    res.probe('decorator-object-used-for-two-functions')
                if k % 3 == 0:
                    # f behind an ordinary functools.wraps decorator: what can be CALLED is (*args, **kwargs), and that is what
                    # inspect reports for it (it does not look through __wrapped__); the library must agree with inspect
                    import functools

                    @functools.wraps(f0_)
                    def passthrough(*args, **kwargs):
                        return ('W', args, tuple(sorted(kwargs)))
                    w_want = inspect.getfullargspec(passthrough)
                    try:
                        w_got = getargspec(passthrough)
                        w_ca = getcallargs(passthrough, 1, 2, 3, zz=4)
                    except Exception as e:
                        raise Violation('argspec', 'getargspec / getcallargs of a functools.wraps-decorated function raised %s: %s' % (type(e).__name__, e), k)
                    if (w_got.args, w_got.varargs, w_got.varkw) != (w_want.args, w_want.varargs, w_want.varkw):
                        raise Violation('argspec', 'a functools.wraps-decorated function is reported as %r, inspect says %r' % (w_got, w_want), k)
                    if not _deep_same(_norm_callargs(w_ca), _norm_callargs(inspect.getcallargs(passthrough, 1, 2, 3, zz=4))):
                        raise Violation('getcallargs', 'getcallargs of a functools.wraps-decorated function = %r, inspect says %r' % (w_ca, inspect.getcallargs(passthrough, 1, 2, 3, zz=4)), k)
                    res.probe('functools-wraps-decorated-function')
                if f0_.__defaults__ and k % 2 == 0:
                    # a second function made from the SAME code with other defaults (closures of one factory, lambdas made in a
                    # loop are like that); asked about after the first, it must be reported with its own defaults
                    import types
                    nd_ = tuple(900 + j_ for j_ in range(len(f0_.__defaults__)))
                    sib_ = types.FunctionType(f0_.__code__, f0_.__globals__, f0_.__name__, nd_, f0_.__closure__)
                    for what_, obj_ in (('plain', sib_), ('decorated', kwargs_support(sib_))):
                        try:
                            g2_ = getargspec(obj_)
                            d2_ = g2_['defaults'] if isinstance(g2_, dict) else g2_.defaults
                        except Exception as e:
                            raise Violation('argspec', 'getargspec of a %s function sharing its code with another raised %s: %s' % (what_, type(e).__name__, e), k)
                        if tuple(d2_ or ()) != nd_:
                            raise Violation('argspec', 'a %s function made from the same code as an earlier one, with defaults %r, is reported with defaults %r' % (what_, nd_, d2_), k)
                    n_req_ = len(want.args) - len(nd_)
                    if not want.kwonlyargs:
                        try:
                            ca_ = getcallargs(sib_, *list(range(n_req_)))
                        except Exception as e:
                            raise Violation('getcallargs', 'getcallargs of a function sharing its code with another raised %s: %s' % (type(e).__name__, e), k)
                        exp_ = inspect.getcallargs(sib_, *list(range(n_req_)))
                        if not _deep_same(_norm_callargs(ca_), _norm_callargs(exp_)):
                            raise Violation('getcallargs', 'getcallargs of a function made from the same code as an earlier one = %r, inspect says %r' % (ca_, exp_), k)
                    res.probe('two-functions-one-code-object')
        res.steps = len(trace['ops'])
    except Violation as v:
        res.violation = {'cls': v.cls, 'msg': v.msg, 'step': v.step}
    res.sim_time = SimClock.elapsed()
    res.obs = [len(ledger), res.stats.get('calls', 0), sorted(res.probes), res.violation and res.violation['cls'],
               [[o['fid'], [l['t'] for l in o['chain']]] for o in pool]]
    res.nontrivial = res.stats.get('calls', 0) >= 2 and len(pool) >= 1 and (not cfg['faulty'] or bool(res.faults) or retry)
    return res


def _is_try_fallback(o, seen, declared):
    """the fallback came from a try_value layer (not from try_back, whose fallback is the caller's own argument) and no
    cache layer holds on to it (a cached object that the caller edits is legitimately returned edited)"""
    if any(l['t'] == 'cache' for l in o['chain']):
        return False
    for l in reversed(o['chain']):
        if l['t'] == 'try':
            return True
        if l['t'] == 'back':
            return False
    return False


def _unhashable_marker(v):
    return isinstance(v, (list, dict))


def _norm_layer(l):
    return l


def _layer_of(obj, try_value, kwargs_support, cache_func):
    name = type(obj).__name__
    if isinstance(obj, try_value):
        v = dict.get(obj, 'value')
        vn = None
        for nm, fv in FALLBACK.items():
            if _deep_same(v, fv):
                vn = nm
        return ('try', vn, dict.get(obj, 'repeat'), dict.get(obj, 'sleep'))
    if name == 'try_back':
        return ('back',)
    if isinstance(obj, kwargs_support):
        return ('kws',)
    if isinstance(obj, cache_func):
        return ('cache',)
    if name == 'loops':
        ts = dict.get(obj, 'types') or ()
        names = [t.__name__ for t in ts if t.__name__ in ('list', 'tuple', 'dict')]
        return ('loop', tuple(names))
    if name == 'pd2np':
        return ('pd2np',)
    return (name,)


def _norm_callargs(d):
    out = {}
    for k, v in d.items():
        out[k] = tuple(v) if isinstance(v, (list, tuple)) and k == 'args' else v
    return out


def _sigclass(s):
    return 'p%dd%d%s%s' % (s['npos'], s['ndef'], 'A' if s['varargs'] else '', 'K' if s['varkw'] else '')


# ----------------------------------------------------------------------------------------------
def shrink_candidates(trace):
    cfg = trace['cfg']
    # wrappers are named by pool position: a wrap that cannot simply be dropped is neutralised (a plain kwargs_support of f0)
    for k, op in enumerate(trace['ops']):
        if op['op'] == 'wrap' and (op['src'] != ['f', 0] or op['dec'] != {'t': 'kws'}):
            t = _copy.deepcopy(trace); t['ops'][k] = {'op': 'wrap', 'src': ['f', 0], 'dec': {'t': 'kws'}}; yield t
    for k, op in enumerate(trace['ops']):
        if op['op'] in ('call', 'callargs'):
            for key in ('extra', 'kw'):
                for j in range(len(op.get(key, []))):
                    t = _copy.deepcopy(trace); del t['ops'][k][key][j]; yield t
            if op['pos']:
                t = _copy.deepcopy(trace); t['ops'][k]['pos'].pop(); yield t
            for key in ('pos',):
                for j, v in enumerate(op[key]):
                    if v != 1:
                        t = _copy.deepcopy(trace); t['ops'][k][key][j] = 1; yield t
            for j, (nm, v) in enumerate(op.get('kw', [])):
                if v != 1:
                    t = _copy.deepcopy(trace); t['ops'][k]['kw'][j][1] = 1; yield t
        if op['op'] == 'wrap' and op['dec'].get('repeat'):
            t = _copy.deepcopy(trace); t['ops'][k]['dec'].pop('repeat'); t['ops'][k]['dec'].pop('sleep', None); yield t
    for i, s in enumerate(cfg['funcs']):
        if s['varargs']:
            t = _copy.deepcopy(trace); t['cfg']['funcs'][i]['varargs'] = False; yield t
        if s['varkw']:
            t = _copy.deepcopy(trace); t['cfg']['funcs'][i]['varkw'] = False; yield t
        if s['ndef']:
            t = _copy.deepcopy(trace); t['cfg']['funcs'][i]['ndef'] -= 1; yield t
        if s['npos'] > s['ndef'] and s['npos'] > 0 and False:
            pass
        if s.get('arm') == 'on13':
            t = _copy.deepcopy(trace); t['cfg']['funcs'][i]['arm'] = 'never'; yield t


def size(trace):
    s = 0
    for op in trace['ops']:
        if op['op'] == 'wrap' and op['src'] == ['f', 0] and op['dec'] == {'t': 'kws'}:
            s += 2
            continue
        s += 20 + 3 * (len(op.get('pos', [])) + len(op.get('kw', [])) + len(op.get('extra', []))) + len(repr(op.get('dec', ''))) // 8
        s += sum(1 for v in op.get('pos', []) if v != 1) + sum(1 for _, v in op.get('kw', []) if v != 1)
    for f in trace['cfg']['funcs']:
        s += f['npos'] + f['ndef'] + 2 * f['varargs'] + 2 * f['varkw'] + (f.get('arm') != 'never')
    return s


def signature(trace, violation):
    return violation['cls']


PROBES = ['cache-hit', 'cache-hit-after-rewrap', 'multi-keyword-call', 'unhashable-argument', 'fallback-taken', 'retry-then-success',
          'same-decorator-through-chain', 'same-decorator-directly', 'clear_cache', 'argspec-checked', 'getcallargs-checked',
          'call_with_callargs-checked', 'pd2np-without-first-argument', 'caller-edits-mutable-fallback', 'falsy-result-cached', 'long-lived-argument-object', 'argument-object-edited-between-calls', 'recursion-through-the-cache', 'flood-of-distinct-keys']
TIERS = {'quick': {'runs': 30000, 'wallcap': 50}, 'thorough': {'runs': 1500000, 'wallcap': 800}}
COMPONENTS = {
    'real': ['pyg_base._decorators wrapper / try_value / try_back / kwargs_support', 'pyg_base._cache cache_func', 'pyg_base._loop loops (non-container input) / pd2np (non-pandas input)',
             'pyg_base._inspect getargspec / getcallargs / call_with_callargs'],
    'stub': ['time.sleep inside pyg_base._decorators (advances the simulated clock)', 'the wrapped functions (generated defs with a call ledger, armed to raise deterministically or transiently)',
             'python\'s inspect.signature().bind / inspect.getcallargs / inspect.getfullargspec are the reference binder'],
}
RULE = ('one case = one seeded history of wrap / call / clear_cache / getargspec / getcallargs operations over a pool of up to 8 wrapper objects built on 1-3 '
        'generated functions; non-trivial = at least 2 calls and, in a fault configuration, at least one call in which f raised (or the retry configuration); '
        'distinct = distinct digest of (trace, observations)')
ASSUMPTIONS = ['the first argument is never a container (loops) nor a pandas object (pd2np), as the property restricts',
               'cache keys: arguments that are equal but of different type (1 / 1.0 / True, list / tuple) are never mixed in one run; the statement does not say whether they are distinct combinations',
               'evaluation counts are not asserted for calls in which f raises (the property exempts them); in the retry configuration nothing depends on the number of attempts',
               'a first call that evaluates nothing is accepted only if it returns the very object an earlier evaluation with an equal key on the same function produced (cache inherited through re-wrapping)',
               'try_back with no first argument passed and f raising has no defined fallback: not generated']
