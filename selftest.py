#!/venv/bin/python
"""Self-tests of the machinery (not registered as checks; run by hand and in the soak).

  selftest.py determinism <ID> [--runs N]
      the same seeds twice, with 16 workers and with 2, digests per run index must be identical;
      then once more with every worker's PYTHONHASHSEED shifted: digests must still be identical
      for properties that are not hash-sensitive by construction (all observations are
      order-normalised), and verdicts must be identical for all.
  selftest.py mutants <ID> [name ...] [--tier quick] [--runs N]
      for every patch under /verif/mutants/<ID>/*.diff and /verif/seeded/*/patch.diff (meta.json
      says which property): copy /repo/src to a scratch dir under /tmp, apply the patch, run the
      check with VERIF_REPO pointing there, expect exit 1 with a VIOLATION line whose replay file
      reproduces, and remove the scratch dir.
"""
import glob
import json
import os
import shutil
import subprocess
import sys
import tempfile

VERIF = os.path.dirname(os.path.abspath(__file__))
sys.path.insert(0, VERIF)
PY = sys.executable


def _read_digests(d):
    out = {}
    for p in glob.glob(os.path.join(d, 'digests-*.txt')):
        with open(p) as f:
            for line in f:
                i, dg, verdict = line.split()
                out[int(i)] = (dg, verdict)
    return out


def determinism(prop, runs):
    from sim import runner, core
    base = tempfile.mkdtemp(prefix='pygverif-det-')
    try:
        reps = []
        for tag, workers, shift in (('w16', 16, 0), ('w2', 2, 0), ('w16-hashshift', 16, 7)):
            out = os.path.join(base, tag)
            saved = list(core.HASH_SEEDS)
            if shift:
                core.HASH_SEEDS[:] = [h + 1000 + shift for h in saved]
                runner.HASH_SEEDS[:] = core.HASH_SEEDS
            try:
                rep = runner.batch(prop, 'quick', int(os.environ.get('VERIF_SEED', '0')), runs=runs, workers=workers, wallcap=3600,
                                   log_digests=True, out_dir=out, write_evidence=False, quiet=True)
            finally:
                core.HASH_SEEDS[:] = saved
                runner.HASH_SEEDS[:] = saved
            reps.append((tag, _read_digests(out), rep))
        a = reps[0][1]
        ok = True
        mod = runner.load(prop)
        for tag, d, rep in reps[1:]:
            same_idx = set(a) == set(d)
            diff_dig = [i for i in a if i in d and a[i][0] != d[i][0]]
            diff_ver = [i for i in a if i in d and a[i][1] != d[i][1]]
            hash_ok = True
            if 'hashshift' in tag and getattr(mod, 'HASH_SENSITIVE', False):
                hash_ok = not diff_ver       # traces/obs may legitimately differ; verdicts may not
                print('%s %s: %d runs, verdict differences %d (digest differences %d allowed: hash-sensitive configuration)'
                      % (prop, tag, len(d), len(diff_ver), len(diff_dig)))
            else:
                hash_ok = not diff_dig and not diff_ver
                print('%s %s vs w16: %d runs, same index set %s, digest differences %d, verdict differences %d'
                      % (prop, tag, len(d), same_idx, len(diff_dig), len(diff_ver)))
                if diff_dig:
                    print('   first differing run indices: %s' % sorted(diff_dig)[:10])
            ok = ok and same_idx and hash_ok
        print('DETERMINISM %s %s' % (prop, 'OK' if ok else 'FAILED'))
        return 0 if ok else 1
    finally:
        shutil.rmtree(base, ignore_errors=True)


def _patches(prop, names):
    out = []
    for p in sorted(glob.glob(os.path.join(VERIF, 'mutants', prop, '*.diff'))):
        out.append((os.path.basename(p)[:-5], p))
    for d in sorted(glob.glob(os.path.join(VERIF, 'seeded', '*'))):
        meta = os.path.join(d, 'meta.json')
        patch = os.path.join(d, 'patch.diff')
        if os.path.exists(meta) and os.path.exists(patch):
            with open(meta) as f:
                m = json.load(f)
            if m.get('property') == prop:
                out.append(('seeded/' + os.path.basename(d), patch))
    if names:
        out = [x for x in out if x[0] in names or os.path.basename(x[0]) in names]
    return out


def run_mutant(prop, name, patch, tier, runs, seed='0'):
    scratch = tempfile.mkdtemp(prefix='pygverif-mut-')
    try:
        shutil.copytree('/repo/src', os.path.join(scratch, 'src'))
        r = subprocess.run(['patch', '-p1', '-s', '-d', scratch, '-i', patch], capture_output=True, text=True)
        if r.returncode != 0:
            return 'patch-failed', r.stdout + r.stderr
        env = dict(os.environ, VERIF_REPO=scratch, VERIF_SEED=seed)
        cmd = [PY, os.path.join(VERIF, 'check.py'), prop, tier, '--no-evidence']
        if runs:
            cmd += ['--runs', str(runs)]
        r = subprocess.run(cmd, capture_output=True, text=True, env=env, cwd=VERIF)
        out = r.stdout + r.stderr
        if r.returncode == 1 and 'VIOLATION property=%s' % prop in out:
            replay = [ln.split('replay=')[1].strip() for ln in out.splitlines() if ln.startswith('VIOLATION')][0]
            r2 = subprocess.run([PY, os.path.join(VERIF, 'check.py'), prop, '--replay', replay], capture_output=True, text=True, env=env, cwd=VERIF)
            env0 = dict(os.environ); env0.pop('VERIF_REPO', None)
            r3 = subprocess.run([PY, os.path.join(VERIF, 'check.py'), prop, '--replay', replay], capture_output=True, text=True, env=env0, cwd=VERIF)
            lines = out.splitlines()
            vi = [k for k, ln in enumerate(lines) if ln.startswith('VIOLATION')][0]
            detail = lines[vi + 1:vi + 2]
            with open(replay) as f:
                rec = json.load(f)
            os.remove(replay)
            status = 'caught' if r2.returncode == 1 else 'caught-but-replay-failed'
            if r3.returncode != 0:
                status += '+replay-fails-on-clean-tree(!)'
            return status, '%s [size %s->%s, run %s] %s' % (rec['violation']['cls'], rec.get('original_size'), rec.get('size'), rec.get('index'), (detail or [''])[0][:160])
        if r.returncode == 0:
            return 'MISSED', out.splitlines()[0] if out else ''
        return 'error(rc=%d)' % r.returncode, out[-1500:]
    finally:
        shutil.rmtree(scratch, ignore_errors=True)


def mutants(prop, names, tier, runs):
    res = []
    for name, patch in _patches(prop, names):
        status, detail = run_mutant(prop, name, patch, tier, runs)
        meta = os.path.join(os.path.dirname(patch), 'meta.json')
        if status == 'MISSED' and os.path.exists(meta):
            with open(meta) as f:
                m = json.load(f)
            if str(m.get('check_result', '')).startswith('NOT-CAUGHT-BY-DESIGN'):
                status, detail = 'accepted-miss', m.get('check_detail', '')[:160]
            elif tier == 'quick' and str(m.get('check_detail', '')).startswith('THOROUGH tier only'):
                status, detail = 'thorough-only', m.get('check_detail', '')[:160]
        print('%-8s %-40s %-10s %s' % (prop, name, status, detail))
        sys.stdout.flush()
        res.append((name, status))
    accepted = [n for n, s in res if s == 'accepted-miss']
    thorough = [n for n, s in res if s == 'thorough-only']
    missed = [n for n, s in res if s not in ('accepted-miss', 'thorough-only') and (not s.startswith('caught') or '(!)' in s or 'replay-failed' in s)]
    print('MUTANTS %s: %d/%d caught%s%s%s' % (prop, len(res) - len(missed) - len(accepted) - len(thorough), len(res), (' ; not caught: %s' % missed) if missed else '',
                                             (' ; outside the statement, not caught by design: %s' % accepted) if accepted else '',
                                             (' ; caught by the thorough tier only: %s' % thorough) if thorough else ''))
    return 0 if not missed else 1


def main(argv):
    import argparse
    ap = argparse.ArgumentParser()
    ap.add_argument('what', choices=['determinism', 'mutants'])
    ap.add_argument('prop')
    ap.add_argument('names', nargs='*')
    ap.add_argument('--runs', type=int, default=None)
    ap.add_argument('--tier', default='quick')
    a = ap.parse_args(argv)
    prop = a.prop.upper()
    if a.what == 'determinism':
        return determinism(prop, a.runs or 2000)
    return mutants(prop, a.names, a.tier, a.runs)


if __name__ == '__main__':
    sys.exit(main(sys.argv[1:]))
