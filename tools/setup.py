#!/venv/bin/python
"""setup_cmd: nothing to build (pure Python, no third-party dependency beyond what /venv already has).
Creates the output directories and sanity-imports the library and the simulator."""
import os
import sys

VERIF = os.path.dirname(os.path.dirname(os.path.abspath(__file__)))
sys.path.insert(0, VERIF)
for d in ('evidence', 'replays'):
    os.makedirs(os.path.join(VERIF, d), exist_ok=True)
from sim import seams
seams.install()
import pyg_base
from sim import core, loop, runner, shrink  # noqa
print('setup ok: pyg_base from %s' % os.path.dirname(pyg_base.__file__))
