#!/usr/bin/env python3-vt
"""validates MANIFEST.json and every evidence file against the schemas (run with python3-vt, which has jsonschema)"""
import glob, json, sys, jsonschema
ok = True
m = json.load(open('/verif/MANIFEST.json'))
jsonschema.validate(m, json.load(open('/root/.vp/MANIFEST.schema.json')))
print('MANIFEST ok:', [c['property_id'] for c in m['checks']], 'n/a:', len(m.get('not_applicable', [])))
ids = {json.loads(l)['id'] for l in open('/verif/properties.jsonl')}
cov = {c['property_id'] for c in m['checks']} | {e['property_id'] for e in m.get('not_applicable', [])}
if ids != cov:
    print('NOT COVERED:', sorted(ids ^ cov)); ok = False
es = json.load(open('/root/.vp/EVIDENCE.schema.json'))
for c in m['checks']:
    p = c['evidence_file']
    try:
        jsonschema.validate(json.load(open(p)), es); print('evidence ok:', p)
    except Exception as e:
        print('EVIDENCE BAD:', p, str(e)[:300]); ok = False
sys.exit(0 if ok else 1)
