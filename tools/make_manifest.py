#!/venv/bin/python
"""Writes /verif/MANIFEST.json from the table below and validates it against the schema."""
import json
import os
import sys

VERIF = os.path.dirname(os.path.dirname(os.path.abspath(__file__)))
PY = '/venv/bin/python'

CLAIMED = {
    'C19': {
        'text': 'Seeded deterministic simulation of pyg_base.waiter on a virtual-time asyncio loop: nested structures with up to 6 awaitable '
                'leaves of 11 kinds (coroutines, tasks, bare and already-done futures, custom awaitables, the same future twice, nested waiters, '
                'leaves that complete only after another leaf), seeded completion times, timer lateness and tie-breaking, and injected leaf '
                'exceptions, leaf/outer cancellation and stalled leaves. Result compared with a structure-substitution model; termination within '
                'a loop-iteration budget. A clean batch is evidence over the sampled schedules, not proof.',
        'note': 'Only the waiter clause (last sentence of C19) is decided; the loop/zipper/as_list clauses are pure functions of one call and are '
                'not covered (see DESIGN.md 4/C19). Trusted: CPython asyncio Task/Future/gather; the virtual loop only produces schedules a real '
                'loop may exhibit (FIFO call_soon, timers never early).',
        'technique': 'deterministic simulation: seeded virtual-time asyncio event loop with fault injection, reference-model oracle',
        'design_ref': 'DESIGN.md 4 (C19), 2.2',
    },
}

CLAIMED['C17'] = {
    'text': 'Seeded deterministic simulation of publication histories against the real Bi/bi_merge/bi_read: publishers stamp versions from a '
            'simulated wall clock (explicitly, or implicitly through bi_merge\'s default "now" read via the clock seam), with clock stalls (several '
            'publications sharing a stamp), forward clock jumps and duplicate delivery of earlier messages injected; as-of readers before, on, '
            'strictly between and after every stamp. Oracles: per-date single-copy log model (what=-1 and what=0), a no-look-ahead invariant over '
            'the recorded history (implementation against itself), redelivery idempotence, store-shape invariant. Evidence over sampled histories, not proof.',
    'note': 'Versions are pandas Series (float/int, optionally named) over a common set of up to 60 observation dates; stamps non-decreasing in '
            'merge order as the property presupposes (redelivery of a version no longer in the store with an old stamp is not executed). '
            'what=0 with several publications at the earliest stamp accepts any of them. pandas is trusted.',
    'technique': 'deterministic simulation: seeded publication/read histories under a simulated clock with stall and duplicate-delivery faults, reference-model oracle',
    'design_ref': 'DESIGN.md 4 (C17)',
}

CLAIMED['C20'] = {
    'text': 'Seeded deterministic simulation of multi-day histories on one long-lived perdictable under a simulated wall clock (the library reads '
            'today = dt(0) through the clock seam): the clock advances by hours to months, stalls, or jumps back; inputs gain and lose keys; an '
            'expiry table classifies each key as absent/None/past/future/today relative to the simulated date; yesterday\'s output is fed back as '
            'data with rows withheld or lost entirely. Oracles: keyed-join reference model (inner join, outer join for defaulted inputs, scalar '
            'broadcast, sort), per-row frozen-or-fresh value check, and a call ledger proving exactly one evaluation per row that needs computing and '
            'none for frozen rows. Evidence over sampled histories, not proof.',
    'note': 'Value-output path of perdictable (functions without .output). Keys unique per table; every table carries all key columns. Accepted '
            'either way where the statement is ambiguous: expiry falling on today\'s date, row order with two key columns, result of an empty join. '
            'One recorded finding (expired row without previous value, if_none=False) is reported as KNOWN-FINDING; only a tenth of the runs provoke it.',
    'technique': 'deterministic simulation: seeded multi-day feedback histories under a simulated clock with clock-jump and state-loss faults, reference-model and call-ledger oracles',
    'design_ref': 'DESIGN.md 4 (C20)',
}

CLAIMED['C01'] = {
    'text': 'Seeded deterministic simulation of operation histories on a pool of up to 6 live dictables that share column list objects: a seeded '
            'scheduler draws 5-40 public operations (4 constructors, assignment/deletion/update by item and attribute, row/column/tuple access, '
            'slices, masks, integer lists, projection, derived columns, rename/relabel, do, minus, copy, +, +=, concat, sum of rows, inc/exc by value '
            'and by callable) and their operands; every live table is compared with a list-of-records model after every step, so an operation '
            'that edits another table is blamed on the step that did it. Faults: ill-fitting constructions/assignments/updates (must be rejected, '
            'table unchanged), user callables that raise at their k-th invocation (no table may change), and the worker\'s PYTHONHASHSEED class. '
            'Evidence over sampled histories, not proof.',
    'note': 'Cells: None, ints, floats incl. NaN, strings incl. empty, datetimes; columns a..f. Column order is not compared (not in the statement). '
            'd+0, d+None and concat of one table may return the operand itself; all other table-returning operations must return a new object. '
            'Outside the oracle: length-1 masks, rows+headers with extra keywords, renaming onto an existing column, if_none, mutating a list obtained via d[c].',
    'technique': 'deterministic simulation: seeded operation histories over a pool of aliasing tables with rejection and callback-failure injection, list-of-records reference model checked after every step',
    'design_ref': 'DESIGN.md 4 (C01)',
}

CLAIMED['C18'] = {
    'text': 'Seeded deterministic simulation of wrap/call histories: a pool of up to 8 wrapper objects built by a seeded stream of wrap operations '
            '(try_none/nan/zero/false/true/list, try_value(repeat, sleep), try_back, kwargs_support, cache, loop(...), pd2np; re-wrapping with a '
            'decorator already in the chain, directly and through others) over 1-3 generated functions from the signature grid 0-4 positional x '
            'defaults x *args x **kwargs, interleaved with calls that split a valid argument set between positional and keyword passing in every '
            'legal way (permuted, undeclared and unhashable arguments), clear_cache, getargspec, getcallargs and call_with_callargs. Faults: f armed '
            'to raise deterministically or transiently (retry under try_value with time.sleep behind the simulated clock). Oracles per step: f\'s own '
            'outcome passed outwards through the documented stack semantics, python\'s binder / inspect as reference, a call ledger (once per '
            'combination, first result object thereafter), and re-inspection of every OTHER live wrapper after each construction. Evidence over '
            'sampled histories, not proof.',
    'note': 'First argument never a container/pandas object. Equal-but-differently-typed arguments (1/1.0/True, list/tuple) are not mixed in one run. '
            'Evaluation counts are not asserted when f raises; in the retry configuration nothing depends on the number of attempts. python\'s '
            'inspect module is the trusted reference binder.',
    'technique': 'deterministic simulation: seeded wrap/call histories over a pool of stateful wrappers with failing and transiently failing functions and a simulated sleep, reference-model and call-ledger oracles',
    'design_ref': 'DESIGN.md 4 (C18)',
}

CLAIMED['C05'] = {
    'text': 'Seeded deterministic simulation of registration/query histories on the module-level calendars registry: (re-)registration under 1-3 '
            'keys by arguments, by Calendar object and by object+holidays, unregistered Calendar objects with adj f/p/m, and 10-50 queries per run '
            '(is_bday, is_holiday, adjust f/p/m, add for n in [-40, 40], add-inverse, table-path vs single-step-path, bdays, drange 1b, dt_bump nb, '
            'clock) placed next to holidays, month ends and weekends, interleaved across keys and landing right after re-registrations, before and '
            'after the lazily built lookup tables exist. Oracle: plain day-by-day loops over the configuration last registered under the key. '
            'Evidence over sampled histories and configurations, not proof.',
    'note': 'Ranges of 2-3 years, holiday density 0-30% with multi-day runs across month ends/weekends, weekend in {Sat-Sun, Fri-Sat, Sun, none}. '
            'Dates and results kept 170 days inside the range. The arithmetic laws for one fixed configuration are pure; they are the read oracle of '
            'the registry / lazy-table simulation, sampled and not enumerated.',
    'technique': 'deterministic simulation: seeded registration/query histories over a shared registry with lazily cached tables and re-registration faults, day-by-day reference model',
    'design_ref': 'DESIGN.md 4 (C05)',
}

EXTENDED = {'C19': " Extended since (DESIGN.md 9.6b): 13 leaf kinds incl. lazy __await__ objects, re-awaitable objects, futures completed in an earlier loop, array-valued and falsy results; containers incl. user subclasses, named_dict records, the library's dictable, tuple keys, hundreds of members, the same container twice; two rounds on the same containers (refilled, re-keyed, after a failed first round, first result extended and waited on again); a concurrent independent waiter; keyword call form.", 'C17': ' Extended since (DESIGN.md 9.6b): several versions merged in one call (also a caller-owned list reused), plain series with asof=, stores started from plain old data, corrections swapping held values, forward-dated series, integer first versions with fractional revisions, nanosecond Timestamp stamps, as-of times as datetime / Timestamp / datetime64 / none, callable `what` that reads the store, a second consumer catching up from an earlier store object, a second store fed in alternation, malformed versions whose merge raises.', 'C20': ' Extended since (DESIGN.md 9.6b): dict-output functions, options col / if_none / include_inputs / output_is_input / renames / explicit and formula defaults / default expiry, keyword-only parameters, the lifted function being a library wrapper, inputs keyed by a subset of the keys, wide input tables, None as a value, big and mixed-case and mixed-type key sets, the join called directly, f raising mid-call, f re-entering the same and another lifted function and join.', 'C01': ' Extended since (DESIGN.md 9.6b): about 45 operation kinds incl. range and numpy selectors, table-to-table assignment, chains of formulas, **kw and keyword-only formulas, affix renames, concat of up to 17 tables, filter dicts reused by the caller, edits of returned objects; user callables that re-enter the library on live tables; half-read iterators kept across mutations; tables of a user subclass; columns named data / columns / key; per-run locality and reads repeated right after in-place changes.', 'C05': ' Extended since (DESIGN.md 9.6b): re-registration by one argument only, with empty / duplicated / in-place edited holiday lists, from the object with another weekend; calendars derived by copy and by the mapping idioms; sibling calendars in alternation; earlier objects used after re-registration; module-level clock(); add on series with a re-entrant aggregate callback; dates as date / Timestamp (with nanoseconds) / with odd times of day; listings and adds at the edges of the range; holidays outside the range; dozens of foreign keys.', 'C18': ' Extended since (DESIGN.md 9.6b): generated functions with *args / **kw / keyword order sensitivity / an axis parameter / marker-object defaults / a local variable; argument objects owned and edited by the caller, dict subclasses and ranges as arguments; floods of thousands of keys; recursion through cache and through try wrappers; getargs / getcallargs / call_with_callargs incl. re-entrant use of the callargs dict; user subclasses of decorators; one decorator object for two functions; functions sharing a code object; functools.wraps-decorated and default-reassigned functions; interrupts and transient failures with retries on simulated sleep.'}

NOT_APPLICABLE = {
    'C02': 'join/xor: result and termination are a function of the two argument tables of one call; no schedule, clock, shared state or fault to simulate.',
    'C03': 'df_sync/df_reindex/presync alignment: pure function of the argument collection and policy; presync wrappers hold no mutable state.',
    'C04': 'dt() parsing: pure function of the spelling; the wall clock behind dateutil\'s default cannot influence any complete-date spelling the property lists.',
    'C06': 'inc/exc partition: pure function of one table and one condition.',
    'C07': 'cmp/sort laws: algebraic laws over pairs/triples of values; sort is deterministic; no state, clock or schedule.',
    'C08': 'timeseries operators: pure pointwise arithmetic on aligned operands.',
    'C09': 'dt_bump: pure calendar arithmetic on an explicit start date.',
    'C10': 'drange: pure function of explicit endpoints and bump; the clock is discarded whenever both endpoints are dates.',
    'C11': 'listby/groupby/pivot round trips: pure functions of one table.',
    'C12': 'df_fillna/nona: pure function of one array/frame; "input not modified" is a single-call before/after comparison.',
    'C13': 'df_slice/df_unslice: pure function of series and bounds (time-of-day bounds are arguments, not the clock).',
    'C14': 'eq: equivalence laws over values; no state.',
    'C15': 'tree flatten/rebuild/update: every clause is observable within one call on its arguments; no history, clock or schedule.',
    'C16': 'ulist/dictattr/Dict algebra: pure operators; "regardless of keyword order" is an input permutation, not a schedule.',
}

PENDING = {} if True else {
    'C01': 'claimed in DESIGN.md (operation-history simulation); check not yet built in this commit.',
    'C05': 'claimed in DESIGN.md (registry / lazy-table history simulation); check not yet built in this commit.',
    'C17': 'claimed in DESIGN.md (publication-history + simulated clock); check not yet built in this commit.',
    'C18': 'claimed in DESIGN.md (call-history, failure and retry simulation); check not yet built in this commit.',
    'C20': 'claimed in DESIGN.md (simulated clock + feedback history); check not yet built in this commit.',
}


def main():
    built = [p for p in sorted(CLAIMED) if os.path.exists(os.path.join(VERIF, 'props', p.lower() + '.py'))]
    checks = []
    for p in built:
        c = CLAIMED[p]
        checks.append({
            'property_id': p,
            'quick_cmd': '%s /verif/check.py %s quick' % (PY, p),
            'thorough_cmd': '%s /verif/check.py %s thorough' % (PY, p),
            'evidence_file': '/verif/evidence/%s.json' % p,
            'replay_cmd_template': '%s /verif/check.py %s --replay {path}' % (PY, p),
            'engine': 'pygsim',
            'level_claimed': {'category': 'exploration', 'text': c['text'] + EXTENDED.get(p, ''), 'design_ref': c['design_ref'] + ', 9.6b'},
            'level_note': c['note'],
            'technique': c['technique'],
        })
    na = [{'property_id': k, 'reason': v} for k, v in sorted(NOT_APPLICABLE.items())]
    for k, v in sorted(PENDING.items()):
        if k not in built:
            na.append({'property_id': k, 'reason': v})
    na.sort(key=lambda e: e['property_id'])
    m = {
        'version': 1,
        'setup_cmd': '%s /verif/tools/setup.py' % PY,
        'hooks': {
            'guard': 'PYG_BASE_VERIF',
            'enable': 'no source hook exists: every seam (clock, sleep, event loop, hash seed) is a module-attribute patch applied by '
                      '/verif/sim/seams.py inside the check processes; the guard name is reserved and unused',
            'baseline_off_cmd': 'cd /repo && /venv/bin/python -m pytest -ra -q -p no:cacheprovider --timeout=900 --continue-on-collection-errors',
            'source_commits': [],
            'add_only': True,
        },
        'engines': [{
            'name': 'pygsim',
            'path': '/verif/sim',
            'serves_properties': built,
            'kind_free_text': 'hand-written deterministic simulator: seeded PRNG streams per run key, simulated wall clock and sleep '
                              '(module-attribute seams), virtual-time asyncio loop, per-run PYTHONHASHSEED classes, reference models as '
                              'oracles, ddmin minimiser, fresh-interpreter replay',
        }],
        'checks': checks,
        'not_applicable': na,
        'notes': 'All checks import pyg_base from /repo/src (current working tree; VERIF_REPO overrides for mutant self-tests). '
                 'Exit 0 held / 1 VIOLATION / 3 HARNESS-ERROR. See DESIGN.md.',
    }
    path = os.path.join(VERIF, 'MANIFEST.json')
    with open(path, 'w') as f:
        json.dump(m, f, indent=1)
    try:
        import jsonschema
        with open('/root/.vp/MANIFEST.schema.json') as f:
            jsonschema.validate(m, json.load(f))
        print('MANIFEST.json valid; claimed: %s' % built)
    except ImportError:
        print('MANIFEST.json written (jsonschema not importable here; not validated)')
    return 0


if __name__ == '__main__':
    sys.exit(main())
