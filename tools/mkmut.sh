#!/bin/bash
# usage: tools/mkmut.sh <PROP> <name>  (python edit script on stdin, editing files under /tmp/mw/src)
prop=$1; name=$2
rm -rf /tmp/mw; mkdir -p /tmp/mw; cp -r /repo/src /tmp/mw/src
(cd /tmp/mw && git init -q . && git add -A && git -c user.email=a@b -c user.name=x commit -qm base)
/venv/bin/python - || { echo "edit failed"; rm -rf /tmp/mw; exit 1; }
mkdir -p /verif/mutants/$prop
(cd /tmp/mw && git diff) > /verif/mutants/$prop/$name.diff
rm -rf /tmp/mw
[ -s /verif/mutants/$prop/$name.diff ] && echo "ok $prop/$name" || echo "EMPTY $prop/$name"
