#!/bin/bash
# usage: tools/soak.sh <tier> <seed-from> <seed-to> [props...]   -- runs checks over many VERIF_SEEDs; prints one line per run, never writes evidence
tier=$1; a=$2; b=$3; shift 3; props=${@:-C01 C05 C17 C18 C19 C20}
cd "$(dirname "$0")/.."
bad=0
for s in $(seq $a $b); do for p in $props; do
  out=$(VERIF_SEED=$s /venv/bin/python check.py $p $tier --no-evidence 2>&1); rc=$?
  echo "seed=$s $p rc=$rc $(echo "$out" | head -1 | cut -c1-160)"
  if [ $rc -ne 0 ]; then bad=$((bad+1)); echo "$out" | grep -E "VIOLATION|HARNESS|^  " | cut -c1-600; fi
done; done
echo "SOAK done: $bad non-zero exits"
