#!/bin/bash
# usage: tools/confirm_seeded.sh <seeded dir>   -- confirms a seeded change in a scratch worktree of /repo HEAD:
#   demo passes on the clean tree, fails with the patch, the pinned suite's stable-pass set still passes. Removes the worktree.
d=$(readlink -f $1); wt=/tmp/wt-confirm-$$
git -C /repo worktree add -q --detach $wt HEAD || exit 2
trap "git -C /repo worktree remove --force $wt >/dev/null 2>&1" EXIT
cd $wt
PYTHONPATH=$wt/src timeout 300 /venv/bin/python $d/demo.py >/tmp/confirm-clean-$$.log 2>&1; c=$?
git apply $d/patch.diff || { echo "PATCH DOES NOT APPLY"; exit 2; }
PYTHONPATH=$wt/src timeout 300 /venv/bin/python $d/demo.py >/tmp/confirm-mut-$$.log 2>&1; m=$?
PYTHONPATH=$wt/src timeout 1200 /venv/bin/python -m pytest -q -p no:cacheprovider --timeout=900 --continue-on-collection-errors -rA 2>/dev/null | grep -E "^PASSED" | sed 's/PASSED //' | sed 's#/#.#g; s#\.py::#::#' | sort > /tmp/confirm-pass-$$.txt
/venv/bin/python - <<EOF
import json
base=set(json.load(open('/root/.vp/BASELINE.json'))['stable_pass'])
got=set(l.strip() for l in open('/tmp/confirm-pass-$$.txt'))
missing=sorted(base-got)
print('demo clean exit=$c mutated exit=$m ; suite: %d of %d baseline tests pass%s' % (len(base&got), len(base), (' MISSING: %s' % missing[:5]) if missing else ''))
ok = ($c==0 and $m==1 and not missing)
print('CONFIRMED' if ok else 'NOT CONFIRMED')
EOF
rm -f /tmp/confirm-*-$$.log /tmp/confirm-pass-$$.txt
