#!/venv/bin/python
import json, sys, glob
for f in (sys.argv[1:] or sorted(glob.glob('/verif/replays/*.json'))):
    r = json.load(open(f))
    print('==', f, r.get('original_size'), '->', r.get('size'))
    t = r['trace']
    print('cfg:', json.dumps(t.get('cfg')))
    for k in t:
        if k not in ('cfg', 'ops', 'prop'):
            print(k + ':', json.dumps(t[k])[:3000])
    for i, op in enumerate(t.get('ops', [])):
        print(' ', i, json.dumps(op)[:800])
    print('violation:', r['violation'])
