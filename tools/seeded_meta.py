#!/venv/bin/python
"""records in every seeded/<id>/meta.json what was run to confirm the change and which check catches it
usage: tools/seeded_meta.py <id> <status> <violation class / note>"""
import json, sys
d, status, note = sys.argv[1], sys.argv[2], sys.argv[3]
p = '/verif/seeded/%s/meta.json' % d
m = json.load(open(p))
m['confirmed'] = ('tools/confirm_seeded.sh seeded/%s in a scratch worktree of /repo HEAD: demo.py exits 0 on the clean tree and 1 with patch.diff applied; '
                  'all 224 stable-pass tests of BASELINE.json still pass with the patch' % d)
m['check_run'] = 'selftest.py mutants %s %s  (scratch copy of /repo/src + patch, VERIF_REPO, quick tier, VERIF_SEED=0, replay re-executed)' % (m['property'], d)
m['check_result'] = status
m['check_detail'] = note
json.dump(m, open(p, 'w'), indent=1)
