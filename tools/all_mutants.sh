#!/bin/bash
# every own mutant and every seeded change against its check (quick tier); prints one summary line per property
cd "$(dirname "$0")/.."
for P in C01 C05 C17 C18 C19 C20; do /venv/bin/python selftest.py mutants $P 2>&1 | grep -E "MISSED|patch-failed|error|replay-fail|MUTANTS"; done
