#!/venv/bin/python
"""Entry point of the verification machinery.

  check.py <ID> quick|thorough [--runs N] [--workers W] [--wallcap S]
  check.py <ID> --replay <file>
  check.py selftest determinism|sensitivity ...      (see selftest.py)

VERIF_SEED (default 0) selects the batch; VERIF_REPO (default /repo) the tree under test.
Run as a script path (never with -m) so that no module is loaded twice.
"""
import argparse
import os
import sys

VERIF = os.path.dirname(os.path.abspath(__file__))
if sys.path[0] != VERIF:
    sys.path.insert(0, VERIF)


def main(argv):
    ap = argparse.ArgumentParser()
    ap.add_argument('prop')
    ap.add_argument('tier', nargs='?', default=None)
    ap.add_argument('--replay')
    ap.add_argument('--minimise')
    ap.add_argument('--history')
    ap.add_argument('--out')
    ap.add_argument('--worker', action='store_true')
    ap.add_argument('--seed', type=int, default=None)
    ap.add_argument('--start', type=int, default=0)
    ap.add_argument('--stride', type=int, default=1)
    ap.add_argument('--count', type=int, default=0)
    ap.add_argument('--wallcap', type=float, default=None)
    ap.add_argument('--runs', type=int, default=None)
    ap.add_argument('--workers', type=int, default=None)
    ap.add_argument('--log-digests', action='store_true')
    ap.add_argument('--run-offset', type=int, default=0)
    ap.add_argument('--deep', action='store_true')
    ap.add_argument('--no-evidence', action='store_true')
    a = ap.parse_args(argv)
    from sim import runner
    prop = a.prop.upper()
    if a.worker:
        return runner.worker_main(prop, a.seed, a.start, a.stride, a.count, a.out, a.wallcap, a.log_digests, a.run_offset, a.deep)
    if a.minimise:
        return runner.minimise_main(prop, a.minimise, a.out)
    if a.history:
        return runner.history_main(prop, a.history, a.out)
    if a.replay:
        return runner.replay_main(prop, a.replay)
    tier = a.tier or os.environ.get('VERIF_TIER') or 'quick'
    if tier not in ('quick', 'thorough'):
        print('unknown tier %r' % tier)
        return 2
    seed = a.seed if a.seed is not None else int(os.environ.get('VERIF_SEED', '0') or 0)
    rep = runner.batch(prop, tier, seed, runs=a.runs, workers=a.workers, wallcap=a.wallcap,
                       log_digests=a.log_digests, write_evidence=not a.no_evidence)
    return rep['exit_code']


if __name__ == '__main__':
    sys.exit(main(sys.argv[1:]))
